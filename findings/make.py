#!/venv/bin/python
"""Regenerates the hand-written replay files of the known findings and checks that each one still
fails the way known_findings.json says. Usage: findings/make.py"""
import json, os, sys
ROOT = os.path.dirname(os.path.dirname(os.path.abspath(__file__)))
sys.path.insert(0, ROOT)
os.environ.setdefault("PYTHONHASHSEED", "0")
from gsim import boot
boot.boot()
from gsim.profiles import get_profile
from gsim.run import execute

T_AB = ["AddTable", "T1", [{"id": "a", "type": "Int", "isFormula": False},
                           {"id": "b", "type": "Text", "isFormula": False}]]
ROWS = ["BulkAddRecord", "T1", [None, None, None], {"a": [1, 2, 3], "b": ["x", "y", "z"]}]

FINDINGS = {
  "F-i.c04": {
    "profile": "c04", "cfg": {"kinds": ["F2sch"], "max_events": 3},
    "events": [{"k": "open"}, {"k": "bundle", "a": [T_AB, ROWS]},
               {"k": "fbundle", "a": [["RenameColumn", "T1", "b", "b2"]],
                "fault": {"kind": "F2sch", "u": 0.0}, "ops": ["rename_column"]}],
  },
  "F-u.c04": {
    "profile": "c04", "cfg": {"kinds": ["F3s"], "max_events": 3},
    "events": [{"k": "open"}, {"k": "bundle", "a": [T_AB, ROWS]},
               {"k": "fbundle", "a": [["BulkUpdateRecord", "T1", [1, 2, 3], {"a": [7, 8, 9]}]],
                "fault": {"kind": "F3s", "u": 0.5}, "ops": ["update_records"]}],
  },
}

ok = True
for name, f in FINDINGS.items():
  p = get_profile(f["profile"])
  r = execute(p, cfg=f["cfg"], events=f["events"])
  print(name, r.violation, r.harness_error)
  if not r.violation:
    ok = False
    continue
  with open(os.path.join(ROOT, "findings", name + ".json"), "w") as out:
    json.dump({"property": r.violation["prop"], "oracle": r.violation["oracle"],
               "profile": f["profile"], "seed": None, "cfg": f["cfg"], "events": f["events"],
               "observed": r.violation, "note": "hand-written minimal history for a known finding"},
              out, indent=1, sort_keys=True)
sys.exit(0 if ok else 1)
