#!/venv/bin/python
"""Regenerates the hand-written replay files of the known findings and checks that each one still
fails the way known_findings.json says. Usage: findings/make.py [name ...]"""
import json, os, sys
ROOT = os.path.dirname(os.path.dirname(os.path.abspath(__file__)))
sys.path.insert(0, ROOT)
os.environ.setdefault("PYTHONHASHSEED", "0")
from gsim import boot
boot.boot()
from gsim.profiles import get_profile
from gsim.run import execute

def col(cid, typ, formula=None):
  d = {"id": cid, "type": typ, "isFormula": formula is not None}
  if formula is not None:
    d["formula"] = formula
  return d

def B(*acts, **kw):
  e = {"k": "bundle", "a": list(acts)}
  e.update(kw)
  return e

T_AB = ["AddTable", "T1", [col("a", "Int"), col("b", "Text")]]
ROWS = ["BulkAddRecord", "T1", [None, None, None], {"a": [1, 2, 3], "b": ["x", "y", "z"]}]
OPEN = {"k": "open"}

FINDINGS = {
  # C04 ------------------------------------------------------------------------------------------
  "F-i.c04": {"profile": "c04", "cfg": {"kinds": ["F2sch"]}, "events": [
    OPEN, B(T_AB, ROWS),
    {"k": "fbundle", "a": [["RenameColumn", "T1", "b", "b2"]], "fault": {"kind": "F2sch", "u": 0.0},
     "ops": ["rename_column"]}]},
  "F-u.c04": {"profile": "c04", "cfg": {"kinds": ["F3s"]}, "events": [
    OPEN, B(T_AB, ROWS),
    {"k": "fbundle", "a": [["BulkUpdateRecord", "T1", [1, 2, 3], {"a": [7, 8, 9]}]],
     "fault": {"kind": "F3s", "u": 0.5}, "ops": ["update_records"]}]},
  "F-l.c04": {"profile": "c04", "cfg": {"kinds": ["F1", "F2sch"]}, "events": [
    OPEN, B(T_AB, ROWS), B(["CreateViewSection", 1, 0, "record", [2], None]),
    # removing the only source row of a group: the empty summary row is auto-removed after the `try`
    {"k": "fbundle", "a": [["RemoveRecord", "T1", 3]], "fault": {"kind": "F1", "u": 0.99, "phase": "post"},
     "ops": ["remove_records"]}]},
  # C24 ------------------------------------------------------------------------------------------
  "F-v.c24": {"profile": "c24", "cfg": {}, "events": [
    OPEN, B(["AddTable", "H", [col("a", "Int")]], ["BulkAddRecord", "H", [None, None], {"a": [1, 2]}], ops=["setup"]),
    B(["AddColumn", "H", "h1", {"type": "Any", "isFormula": True,
                                "formula": "(lambda: [x for x in [[]] if not x.append(x)][0])()"}], ops=["hostile_formula"]),
    {"k": "restart", "mode": "reported"}]},
  # C05 ------------------------------------------------------------------------------------------
  "F-c.c05": {"profile": "c05", "cfg": {"check_every": 1}, "events": [
    OPEN, B(["AddTable", "T1", [col("a", "Int"), col("s", "Int")]],
            ["BulkAddRecord", "T1", [None] * 3, {"a": [1, 1, 2], "s": [3, 2, 1]}]),
    B(["AddTable", "T2", [col("k", "Int")]], ["BulkAddRecord", "T2", [None] * 2, {"k": [1, 2]}]),
    B(["AddColumn", "T2", "f", {"type": "Any", "isFormula": True,
                                "formula": "[r.id for r in T1.lookupRecords(a=$k, order_by=\"s\")]"}]),
    B(["ModifyColumn", "T1", "s", {"isFormula": True, "formula": "1/0"}]),
    B(["UpdateRecord", "T1", 1, {"a": 2}])]},
  "F-p.c05": {"profile": "c05", "cfg": {"check_every": 1}, "events": [
    OPEN, B(["AddTable", "Src", [col("c1", "Text")]]),
    B(["CreateViewSection", 1, 0, "record", [2], None]),
    B(["AddTable", "Aaa", [col("k", "Text")]]),
    B(["AddColumn", "Aaa", "f", {"type": "Any", "isFormula": True,
                                 "formula": "Src_summary_c1.lookupOne(c1=$k).count"}]),
    # one bundle adds the looked-up key to the source and the row that looks it up; table Aaa
    # sorts before Src, so Aaa.f is evaluated before the summary row exists
    B(["BulkAddRecord", "Src", [None, None], {"c1": ["1", "x y"]}],
      ["BulkAddRecord", "Aaa", [None, None], {"k": ["1", "zz"]}])]},
  "F-b.c05": {"profile": "c05", "cfg": {"check_every": 1}, "events": [
    OPEN, B(["AddTable", "T1", [col("a", "Int")]], ["AddRecord", "T1", None, {"a": 1}]),
    B(["AddColumn", "T1", "f", {"type": "Any", "isFormula": True, "formula": "len(Later.all)"}]),
    B(["AddTable", "Later", [col("x", "Int")]])]},
  # C11 ------------------------------------------------------------------------------------------
  "F-q.c11": {"profile": "c11", "cfg": {}, "events": [
    OPEN, B(["AddTable", "T1", [col("a", "Ref:T1")]], ["BulkAddRecord", "T1", [None] * 3, {}]),
    B(["AddReverseColumn", "T1", "a"]),
    B(["BulkUpdateRecord", "T1", [1, 2], {"a": [2, 3], "T1": [["L", 3], None]}])]},
  "F-w.c11": {"profile": "c11", "cfg": {}, "events": [
    OPEN, B(["AddTable", "T1", [col("p", "RefList:T1"), col("q", "RefList:T1")]],
            ["BulkAddRecord", "T1", [None] * 3, {"p": [["L", 2, 3], None, ["L", 1]]}]),
    B(["ModifyColumn", "T1", "p", {"reverseCol": 3}])]},
  # C16 ------------------------------------------------------------------------------------------
  "F-y.c16": {"profile": "c16", "cfg": {}, "events": [
    OPEN, B(["AddTable", "T1", [col("c1", "Numeric")]], ["BulkAddRecord", "T1", [None] * 2, {"c1": [1.5, 2.0]}]),
    B(["AddTable", "T2", [col("x", "Int")]]),
    B(["CreateViewSection", 1, 0, "record", [], None]),
    B(["RenameTable", "T2", "SUM"], ops=["rename_any"]),
    # the shadowing shows when the summary formula is next recomputed
    B(["RenameTable", "T1", "T9"], ops=["rename_any"])]},
  "F-o.c06": {"profile": "c06", "cfg": {"sched_seed": 2}, "events": [
    OPEN, B(["AddTable", "T1", [col("a", "Int")]], ["BulkAddRecord", "T1", [None, None], {"a": [1, 2]}]),
    B(["AddColumn", "T1", "f", {"type": "Any", "isFormula": True, "formula": "($a or 0) + 1"}]),
    B(["AddColumn", "T1", "g", {"type": "Any", "isFormula": True, "formula": "IFERROR($f, -1)"}]),
    B(["ModifyColumn", "T1", "f", {"formula": "($g or 0) + ($a or 0)"}]),
    B(["UpdateRecord", "T1", 1, {"a": 5}])]},
  "F-n.c16": {"profile": "c16", "cfg": {}, "events": [
    OPEN, B(["AddTable", "T1", [col("c1", "Int")]], ["BulkAddRecord", "T1", [None] * 2, {"c1": [1, 2]}]),
    # (in the renamed table itself: elsewhere the cell keeps its stale NameError, finding F-b of C05)
    B(["AddColumn", "T1", "f", {"type": "Any", "isFormula": True, "formula": "len(Zed.lookupRecords(c1=1))"}]),
    B(["RenameTable", "T1", "Zed"], ops=["rename_any"])]},
}

ok = True
names = sys.argv[1:] or sorted(FINDINGS)
for name in names:
  f = FINDINGS[name]
  p = get_profile(f["profile"])
  r = execute(p, cfg=f["cfg"], events=json.loads(json.dumps(f["events"])))
  v = r.violation
  print("%-10s %s %s" % (name, (v["oracle"] + ": " + v["detail"][:230]) if v else "NO VIOLATION",
                          ("HARNESS " + r.harness_error[-300:]) if r.harness_error else ""))
  if not v:
    ok = False
    continue
  with open(os.path.join(ROOT, "findings", name + ".json"), "w") as out:
    json.dump({"property": v["prop"], "oracle": v["oracle"], "profile": f["profile"], "seed": None,
               "cfg": f["cfg"], "events": f["events"], "observed": v,
               "note": "hand-written minimal history for a known finding"}, out, indent=1, sort_keys=True)
sys.exit(0 if ok else 1)
