"""Minimal stand-in for the third-party `friendly_traceback` package (absent from /venv and from
the offline wheelhouse). The engine only needs `source_cache.cache.add` so that tracebacks of
generated user code can find their source lines."""
