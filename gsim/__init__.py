"""gsim: deterministic simulation with fault injection for the Grist data engine (see DESIGN.md)."""
