"""
The simulated pipe between the Node stub and the sandbox. The real `sandbox.Sandbox` is built on
these two objects (its constructor takes the file objects as arguments -- an existing seam).

SimPipeIn:  what the sandbox reads. When it runs empty the sandbox is, in a real deployment,
            blocked on the pipe; here the pipe calls back into the simulator (`on_empty`), which
            decides what the peer does next: answer a nested call_external, or nothing (EOF).
SimPipeOut: what the sandbox writes; frames are collected for the Node stub.
"""
import io
import marshal


class SimPipeIn(object):
  def __init__(self, on_empty=None):
    self._buf = bytearray()
    self._pos = 0
    self.on_empty = on_empty
    self.bytes_delivered = 0

  def feed(self, data):
    if self._pos:
      del self._buf[:self._pos]
      self._pos = 0
    self._buf += data

  def push_message(self, msg_code, body):
    self.feed(marshal.dumps(msg_code, 2))
    self.feed(marshal.dumps(body, 2))

  def _avail(self):
    return len(self._buf) - self._pos

  def readinto(self, b):
    n = len(b)
    if n == 0:
      return 0
    if self._avail() == 0 and self.on_empty is not None:
      self.on_empty()
    k = min(n, self._avail())
    if k == 0:
      return 0          # EOF
    b[:k] = self._buf[self._pos:self._pos + k]
    self._pos += k
    self.bytes_delivered += k
    return k

  def read(self, n=-1):
    if self._avail() == 0 and self.on_empty is not None:
      self.on_empty()
    if n is None or n < 0:
      n = self._avail()
    k = min(n, self._avail())
    out = bytes(self._buf[self._pos:self._pos + k])
    self._pos += k
    self.bytes_delivered += k
    return out


class SimPipeOut(object):
  def __init__(self):
    self._buf = io.BytesIO()
    self.frames = []       # decoded (msgCode, body) tuples, in order written
    self.raw_frames = []   # the marshalled inner buffers
    self.bytes_written = 0

  def write(self, data):
    self.bytes_written += len(data)
    return self._buf.write(data)

  def flush(self):
    data = self._buf.getvalue()
    self._buf = io.BytesIO()
    if not data:
      return
    # Sandbox._send_to_js writes marshal.dump(buf) where buf = marshal.dumps((code, body)).
    stream = io.BytesIO(data)
    while stream.tell() < len(data):
      inner = marshal.load(stream)
      self.raw_frames.append(inner)
      self.frames.append(marshal.loads(inner))

  def take(self):
    out, self.frames = self.frames, []
    self.raw_frames = []
    return out
