"""
Observation equality (DESIGN section 5). Works on values *as delivered over the pipe* (Node's
encoding). Independent of objtypes.py on purpose.
"""
import math
import re


_ADDR = re.compile(r" at 0x[0-9a-fA-F]+")


def norm(v):
  """Canonical, hashable form of an encoded cell. bool only equals bool; numbers compare by
  value (1 ~ 1.0); NaN ~ NaN; error cells compare by class name only."""
  try:
    return _norm(v)
  except RecursionError:
    # Very deep nesting (it did travel through marshal, so marshal can serialise it).
    import marshal
    return ("deep", marshal.dumps(v, 2))


def _norm(v):
  if v is None:
    return None
  if v is True or v is False:
    return ("b", v)
  t = type(v)
  if t is int:
    return ("n", v)
  if t is float:
    if v != v:
      return ("nan",)
    if math.isinf(v):
      return ("n", v)
    if v.is_integer():
      return ("n", int(v))
    return ("n", v)
  if t is str:
    return v
  if t is list or t is tuple:
    if v and v[0] == "E" and isinstance(v[0], str):
      return ("E", v[1] if len(v) > 1 else None)
    if len(v) == 2 and v[0] == "U" and isinstance(v[1], str):
      # the repr of an object that cannot travel; a default repr carries a memory address
      return ("U", _ADDR.sub(" at 0x?", v[1]))
    return ("L",) + tuple(_norm(x) for x in v)
  if t is dict:
    return ("D",) + tuple(sorted(((_norm(k), _norm(x)) for k, x in v.items()), key=repr))
  if t is bytes:
    return ("bytes", v)
  return ("?", repr(v))


def norm_table(table_data):
  """['TableData', id, row_ids, {col: values}] -> {row_id: {col: norm(cell)}} plus column set."""
  _t, _tid, row_ids, cols = table_data
  if not isinstance(row_ids, list):
    return {"#": repr(cols)}
  rows = {}
  for i, r in enumerate(row_ids):
    rows[r] = {c: norm(vals[i]) for c, vals in cols.items()}
  return rows


def canon(snap):
  """Snapshot -> {table: (sorted col ids, {row: {col: cell}})}."""
  out = {}
  for tid, td in snap.items():
    cols = td[3]
    out[tid] = (tuple(sorted(cols.keys())), norm_table(td))
  return out


def diff(snap_a, snap_b, limit=8, tables=None, ignore_cols=None):
  """List of human-readable differences between two snapshots (empty = equal)."""
  a, b = canon(snap_a), canon(snap_b)
  out = []
  keys = sorted(set(a) | set(b))
  for tid in keys:
    if tables is not None and tid not in tables:
      continue
    if tid not in a:
      out.append("table %s only in B" % tid)
      continue
    if tid not in b:
      out.append("table %s only in A" % tid)
      continue
    (ca, ra), (cb, rb) = a[tid], b[tid]
    ign = set(ignore_cols.get(tid, ())) if ignore_cols else set()
    if set(ca) - ign != set(cb) - ign:
      out.append("table %s columns differ: A-B=%s B-A=%s" % (
        tid, sorted(set(ca) - set(cb) - ign), sorted(set(cb) - set(ca) - ign)))
      continue
    if set(ra) != set(rb):
      out.append("table %s row ids differ: A-B=%s B-A=%s" % (
        tid, sorted(set(ra) - set(rb))[:10], sorted(set(rb) - set(ra))[:10]))
      continue
    for r in sorted(ra):
      for c in ca:
        if c in ign:
          continue
        if ra[r][c] != rb[r][c]:
          out.append("%s[%s].%s: A=%r B=%r" % (tid, r, c, ra[r][c], rb[r][c]))
          if len(out) >= limit:
            return out
    if len(out) >= limit:
      return out
  return out


def equal(snap_a, snap_b, **kw):
  return not diff(snap_a, snap_b, limit=1, **kw)


# -- decoding for oracles -------------------------------------------------------------------------

class Err(object):
  """A decoded error cell."""
  __slots__ = ("cls",)
  def __init__(self, cls):
    self.cls = cls
  def __repr__(self):
    return "Err(%s)" % self.cls
  def __eq__(self, other):
    return isinstance(other, Err) and other.cls == self.cls
  def __hash__(self):
    return hash(("Err", self.cls))


def decode(v):
  """Encoded cell -> plain Python value for reference models: ['L', ...] -> list,
  ['R', t, id] -> id, ['r', t, ids] -> list, ['E', cls, ...] -> Err, ['d'/'D', ts, ..] -> ('d', ts)."""
  if isinstance(v, list):
    if not v:
      return []
    code = v[0]
    if code == "L":
      return [decode(x) for x in v[1:]]
    if code == "l":
      return decode(v[1]) if len(v) > 1 else []
    if code == "R":
      return v[2]
    if code == "r":
      return list(v[2])
    if code == "E":
      return Err(v[1] if len(v) > 1 else None)
    if code == "d":
      return ("d", v[1])
    if code == "D":
      return ("D", v[1], v[2])
    if code == "O":
      return {k: decode(x) for k, x in v[1].items()}
    if code in ("P", "U", "C", "S", "V"):
      return (code,) + tuple(v[1:])
    return [decode(x) for x in v]
  return v


def rows_of(table_data):
  """['TableData', id, row_ids, cols] -> {row_id: {col: decoded}} (row ids ascending)."""
  _t, _tid, row_ids, cols = table_data
  out = {}
  for i, r in enumerate(row_ids):
    out[r] = {c: decode(vals[i]) for c, vals in cols.items()}
  return out


def raw_rows_of(table_data):
  _t, _tid, row_ids, cols = table_data
  out = {}
  for i, r in enumerate(row_ids):
    out[r] = {c: vals[i] for c, vals in cols.items()}
  return out
