"""
Process bootstrap: pins the environment, puts the engine sources of the *current* working tree and
the friendly_traceback stub on sys.path, imports the engine modules once and installs the
harness-side seams (captured Engine class, simulated clock).

Nothing here copies engine code: modules are imported from GRIST_SRC (default /repo/sandbox/grist)
with bytecode writing disabled, so every check run sees the tree as it is now.
"""
import os
import sys

VERIF_DIR = os.path.dirname(os.path.dirname(os.path.abspath(__file__)))
GRIST_SRC = os.environ.get("GRIST_SRC", "/repo/sandbox/grist")
REPO_ROOT = os.path.dirname(os.path.dirname(GRIST_SRC))

_PINNED_ENV = {
  "PYTHONDONTWRITEBYTECODE": "1",
  "DETERMINISTIC_MODE": "1",
}
_SCRUB_ENV = ["GRIST_TRUTHY_VALUES", "GRIST_FALSY_VALUES", "DOC_URL", "IMPORTDIR", "PIPE_MODE",
              "VERBOSE", "GRIST_THROTTLE_CPU"]


def ensure_hashseed(default="0"):
  """Re-exec the interpreter with a fixed PYTHONHASHSEED (default 0) unless one is already set.
  Called by CLI entry points before anything else is imported."""
  if os.environ.get("PYTHONHASHSEED") is None:
    env = dict(os.environ)
    env["PYTHONHASHSEED"] = os.environ.get("GSIM_HASHSEED", default)
    env["PYTHONDONTWRITEBYTECODE"] = "1"
    os.execve(sys.executable, [sys.executable] + sys.argv, env)


_booted = False

class SimClock(object):
  """The only clock the engine sees. A counter advanced by the scheduler."""
  def __init__(self):
    self.now = 1700000000.0
  def time(self):
    return self.now
  def advance(self, dt):
    self.now += dt

clock = SimClock()


def _install_arena_cache():
  """Performance only (see native/arena_cache.c): keep CPython's frame-stack chunks and obmalloc
  arenas on a free list instead of mmap/munmap-ing them ~1000 times per run. Silently skipped if
  the helper cannot be built or loaded; nothing the engine computes depends on it."""
  if os.environ.get("GSIM_NO_ARENA_CACHE"):
    return False
  try:
    import ctypes
    import subprocess
    so = os.path.join(VERIF_DIR, "build", "arena_cache.so")
    src = os.path.join(VERIF_DIR, "native", "arena_cache.c")
    if not os.path.exists(so) or os.path.getmtime(so) < os.path.getmtime(src):
      os.makedirs(os.path.dirname(so), exist_ok=True)
      tmp = "%s.%d.tmp" % (so, os.getpid())
      for cc in ("gcc", "cc", "clang"):
        try:
          subprocess.run([cc, "-O2", "-shared", "-fPIC", "-o", tmp, src], check=True,
                         capture_output=True, timeout=60)
          os.rename(tmp, so)
          break
        except Exception:      # pylint: disable=broad-except
          continue
    lib = ctypes.CDLL(so, mode=ctypes.RTLD_GLOBAL)
    lib.gsim_install()
    return True
  except Exception:            # pylint: disable=broad-except
    return False


arena_cache_installed = False


def boot():
  """Import the engine from GRIST_SRC and install seams. Idempotent."""
  global _booted, arena_cache_installed
  if _booted:
    return
  _booted = True
  arena_cache_installed = _install_arena_cache()
  sys.dont_write_bytecode = True
  for k in _SCRUB_ENV:
    os.environ.pop(k, None)
  os.environ.update(_PINNED_ENV)
  stubs = os.path.join(VERIF_DIR, "stubs")
  for p in (stubs, GRIST_SRC):
    if p not in sys.path:
      sys.path.insert(0, p)

  import logging
  import engine      # noqa: E402
  import main        # noqa: E402  (calls logging.basicConfig at import)
  import useractions # noqa: E402
  logging.getLogger().setLevel(logging.CRITICAL + 1)
  logging.disable(logging.CRITICAL)

  # Seam: capture the Engine object that main.run() creates.
  class CapturedEngine(engine.Engine):
    last = None
    def __init__(self):
      super(CapturedEngine, self).__init__()
      CapturedEngine.last = self
  engine.CapturedEngine = CapturedEngine
  engine.OrigEngine = engine.Engine
  engine.Engine = CapturedEngine

  # Seam: the clock. useractions reads time.time for _grist_Cells timestamps; engine.py reads it
  # only for a log line. Replace the module objects' view of `time` with a shim.
  class _TimeShim(object):
    def __getattr__(self, name):
      import time as _t
      return getattr(_t, name)
    @staticmethod
    def time():
      return clock.time()
  shim = _TimeShim()
  useractions.time = shim
  engine.time = shim
  # functions.date.NOW/TODAY read datetime.now(); they are excluded from every property's formula
  # grammar (volatile), so no shim is installed there (a class shim would break isinstance checks).
