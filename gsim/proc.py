"""
EngineProc: one simulated sandbox process -- the real `main.run(Sandbox(pipe_in, pipe_out))` with the
real Engine behind it, driven one delivered message at a time.

Several EngineProcs may live in one OS process (twins, restarted instances). The two process-global
variables the engine code consults (`docmodel.global_docmodel`, `sandbox.default_sandbox`) are
switched on every entry, like a context switch.
"""
import marshal

from . import boot
from .pipe import SimPipeIn, SimPipeOut


class SandboxDied(Exception):
  """The sandbox main loop raised (something escaped Sandbox.run) -- never legal."""


class CallResult(object):
  __slots__ = ("ok", "value", "error", "nested")
  def __init__(self, ok, value=None, error=None, nested=None):
    self.ok = ok            # True: DATA frame, False: EXC frame
    self.value = value
    self.error = error
    self.nested = nested or []   # nested call_external requests issued while serving this call

  def __repr__(self):
    return "CallResult(ok=%r, %s)" % (self.ok, (repr(self.value)[:80] if self.ok else self.error))


class DefaultPeer(object):
  """Node's answers to nested call_external requests. Deterministic stubs."""
  def answer(self, name, args):
    if name == "guessColInfo":
      values = args[0]
      # Deterministic stand-in for app/common/ValueGuesser: all-numeric text -> Numeric.
      def num(v):
        try:
          float(v)
          return True
        except (TypeError, ValueError):
          return False
      non_blank = [v for v in values if v not in (None, "")]
      if non_blank and all(num(v) for v in non_blank):
        conv = [None if v in (None, "") else float(v) for v in values]
        return (True, {"colInfo": {"type": "Numeric"}, "values": conv})
      return (True, {"colInfo": {"type": "Text"}})
    if name == "convertFromColumn":
      src_values = args[5]
      return (True, [("" if v is None else (v if isinstance(v, str) else repr(v)))
                     for v in src_values])
    return (False, "peer: unsupported external call %s" % name)


class EngineProc(object):
  def __init__(self, peer=None, name="E"):
    boot.boot()
    import engine as engine_mod
    import main as main_mod
    import sandbox as sandbox_mod
    import docmodel as docmodel_mod
    self._sandbox_mod = sandbox_mod
    self._docmodel_mod = docmodel_mod
    self.name = name
    self.peer = peer or DefaultPeer()
    self.pin = SimPipeIn(on_empty=self._on_empty)
    self.pout = SimPipeOut()
    self.sbx = sandbox_mod.Sandbox(self.pin, self.pout)
    self._answered = 0
    self._nested = []
    self.calls = 0
    sandbox_mod.default_sandbox = self.sbx
    engine_mod.CapturedEngine.last = None
    main_mod.run(self.sbx)     # registers the API, then Sandbox.run() hits EOF at once and returns
    self.engine = engine_mod.CapturedEngine.last
    assert self.engine is not None
    self.alive = True

  # -- context switch ---------------------------------------------------------------------------
  def enter(self):
    self._docmodel_mod.global_docmodel = self.engine.docmodel
    self._sandbox_mod.default_sandbox = self.sbx

  # -- nested call_external: the sandbox is blocked reading; decide what the peer does ---------
  def _on_empty(self):
    self.pout.flush()
    calls = [f for f in self.pout.frames if f[0] is None]
    if self._answered < len(calls):
      (_code, body) = calls[self._answered]
      self._answered += 1
      name, args = body[0], list(body[1:])
      self._nested.append((name, args))
      ok, value = self.peer.answer(name, args)
      self.pin.push_message(True if ok else False, value)
    # else: nothing to deliver -> EOF, which ends Sandbox.run for this message.

  # -- one RPC through the real framing --------------------------------------------------------
  def call(self, name, *args):
    assert self.alive
    self.enter()
    self.calls += 1
    self._answered = 0
    self._nested = []
    self.pout.take()
    self.pin.push_message(None, [name] + list(args))
    try:
      self.sbx.run()
    except Exception as e:       # pylint: disable=broad-except
      self.alive = False
      raise SandboxDied("%s: %s" % (type(e).__name__, e))
    self.pout.flush()
    frames = self.pout.take()
    replies = [f for f in frames if f[0] is not None]
    if len(replies) != 1:
      self.alive = False
      raise SandboxDied("expected exactly one reply frame, got %d" % len(replies))
    code, body = replies[0]
    if code is True:
      return CallResult(True, value=body, nested=self._nested)
    return CallResult(False, error=body, nested=self._nested)

  def apply(self, user_actions, user=None):
    if user is None:
      return self.call("apply_user_actions", user_actions)
    return self.call("apply_user_actions", user_actions, user)

  # -- observation -----------------------------------------------------------------------------
  def table_ids(self):
    """All table ids: every _grist_* table plus every tableId in _grist_Tables."""
    meta = self.call("fetch_meta_tables", True)
    assert meta.ok, meta.error
    ids = set(meta.value.keys())
    t = meta.value["_grist_Tables"]
    ids.update(t[3]["tableId"])
    return sorted(ids), meta.value

  def snapshot(self, formulas=True):
    """Sigma(E): {table_id: ['TableData', id, row_ids, {col: values}]} as delivered over the pipe."""
    ids, meta = self.table_ids()
    snap = {}
    for tid in ids:
      if formulas and tid in meta:
        snap[tid] = meta[tid]
        continue
      r = self.call("fetch_table", tid, formulas)
      assert r.ok, "fetch_table(%s) failed: %s" % (tid, r.error)
      snap[tid] = r.value
    # White-box cross-check: the engine has no table the metadata does not know (and vice versa).
    eng_tables = set(self.engine.tables.keys())
    if eng_tables != set(ids):
      snap["#tables-mismatch"] = ["TableData", "#tables-mismatch",
                                  [], {"engine_only": sorted(eng_tables - set(ids)),
                                       "meta_only": sorted(set(ids) - eng_tables)}]
    return snap


def db_blob(table_data):
  """Encode a fetched table (['TableData', id, row_ids, cols]) the way DocStorage serves it to
  load_table/load_meta_tables: marshalled dict with bytes keys, primitive cells as is and
  everything else as a marshalled blob (bytes)."""
  _t, _id, row_ids, cols = table_data
  out = {b"id": list(row_ids)}
  for col_id, values in cols.items():
    out[col_id.encode("utf8")] = [db_cell(v) for v in values]
  return marshal.dumps(out, 2)


def db_cell(v):
  if v is None or isinstance(v, (str, int, float)):   # bool is an int
    return v
  return marshal.dumps(v, 2)
