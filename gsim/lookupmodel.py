"""
Reference semantics of lookupRecords / lookupOne / find.* / PREVIOUS / NEXT / RANK over a snapshot
(naive filter + sort; linear scans). Independent of lookup.py, sort_key.py, records.py.

Every function returns UNCONSTRAINED when the situation is outside the property's own precondition
(sort values not mutually comparable, NaN keys, cross-type key conversions this model does not
implement): the oracle then says nothing about that probe.
"""
import ast
import math

from . import eq, fx

UNCONSTRAINED = object()

NUMERIC_TYPES = ("Int", "Numeric")
TEXT_TYPES = ("Text", "Choice")


class Alt(object):
  """Alt text in a non-text column: the engine wraps it in AltText, which equals only another
  AltText of the same text."""
  __slots__ = ("s",)
  def __init__(self, s):
    self.s = s
  def __repr__(self):
    return "Alt(%r)" % self.s


def rich(pure, cell):
  """The value formulas (and hence lookup keys and sort keys) see for a stored cell."""
  if isinstance(cell, eq.Err):
    return cell
  if pure == "Date":
    if isinstance(cell, tuple) and cell and cell[0] == "d":
      cell = cell[1]
    if isinstance(cell, (int, float)) and not isinstance(cell, bool):
      if cell != cell or abs(cell) == float("inf"):
        return UNCONSTRAINED
      return ("date", int(cell // 86400))
    if isinstance(cell, str):
      return Alt(cell)
    return cell
  if pure == "DateTime":
    if isinstance(cell, tuple) and cell and cell[0] == "D":
      cell = cell[1]
    if isinstance(cell, (int, float)) and not isinstance(cell, bool):
      return ("dt", cell)
    if isinstance(cell, str):
      return Alt(cell)
    return cell
  if pure in ("ManualSortPos", "PositionNumber", "Id"):
    if isinstance(cell, (int, float)) and not isinstance(cell, bool) and cell == cell:
      return cell
    return UNCONSTRAINED
  if pure in NUMERIC_TYPES:
    if isinstance(cell, bool):
      return UNCONSTRAINED
    if isinstance(cell, str):
      return Alt(cell)
    if pure == "Int" and type(cell) is float:
      # a float stored in an Int column is not of the column's type: formulas see alt text.
      # (Reachable: redo of a Date/Numeric -> Int type change replays only the ModifyColumn,
      # because the value-equal conversion 5.0 -> 5 is not a stored action; finding F-z.)
      return Alt(str(cell))
    return cell
  if pure == "Bool":
    if isinstance(cell, str):
      return Alt(cell)
    return cell
  if pure in TEXT_TYPES:
    if cell is None or isinstance(cell, str):
      return cell
    return UNCONSTRAINED
  if pure == "Ref":
    if isinstance(cell, str):
      return Alt(cell)
    return cell
  if pure in ("ChoiceList", "RefList"):
    if cell is None:
      return ()
    if isinstance(cell, list):
      return tuple(cell)
    if isinstance(cell, str):
      return Alt(cell)
    return UNCONSTRAINED
  return UNCONSTRAINED       # Any and others: not modelled


def family(v):
  if v is None:
    return "none"
  if isinstance(v, bool):
    return "bool"
  if isinstance(v, (int, float)):
    return "nan" if v != v else "num"
  if isinstance(v, str):
    return "str"
  if isinstance(v, tuple) and v and v[0] in ("date", "dt"):
    return v[0]
  return "other"


def convert_key(key_pure, key, src_family=None):
  """The key after conversion to the looked-up column's type, or UNCONSTRAINED."""
  if isinstance(key, Alt):
    # converting alt text: a text column takes the plain text; a numeric column parses it if it
    # can (not modelled) and otherwise keeps alt text; other types have their own parsers
    if key_pure in TEXT_TYPES:
      return key.s
    if key_pure in NUMERIC_TYPES:
      try:
        float(key.s)
        return UNCONSTRAINED
      except ValueError:
        return key
    return UNCONSTRAINED
  if key is UNCONSTRAINED or isinstance(key, eq.Err):
    return key
  f = family(key)
  if f == "nan":
    return UNCONSTRAINED
  if key is None:
    # (the column's conversion is applied to the key: Bool turns a blank into False)
    return False if key_pure == "Bool" else None
  if key_pure == "Date" and f == "num":
    return ("date", int(key // 86400))      # a timestamp stands for its UTC day
  if key_pure in NUMERIC_TYPES and f == "num":
    return key
  if key_pure in TEXT_TYPES and f == "str":
    return key
  if key_pure == "Date" and f == "date":
    return key
  if key_pure == "DateTime" and f == "dt":
    return key
  if key_pure == "Bool" and f == "bool":
    return key
  if key_pure == "Ref" and f == "num":
    return key
  return UNCONSTRAINED


def keys_equal(a, b):
  if isinstance(a, Alt) or isinstance(b, Alt):
    # AltText equals only another AltText with the same text (never a plain string)
    return isinstance(a, Alt) and isinstance(b, Alt) and a.s == b.s
  try:
    return bool(a == b)
  except Exception:    # pylint: disable=broad-except
    return False


class TableView(object):
  """Rich values of one table of a snapshot."""
  def __init__(self, snap, dv, table_id):
    self.t = dv.tables[table_id]
    self.rows = eq.rows_of(snap[table_id])
    self.row_ids = sorted(self.rows)

  def col_pure(self, col_id):
    if col_id == "id":
      return "Id"
    c = self.t.cols.get(col_id)
    return c.pure if c is not None else None

  def value(self, row_id, col_id):
    if col_id == "id":
      return row_id
    pure = self.col_pure(col_id)
    if pure is None or col_id not in self.rows[row_id]:
      return UNCONSTRAINED
    c = self.t.cols[col_id]
    if c.isFormula and c.pure == "Any":
      return UNCONSTRAINED
    return rich(pure, self.rows[row_id][col_id])


def parse_spec(order_by, sort_by, has_manual_sort):
  """[(col, sign), ...] after the documented fallbacks; row id is the final implicit tie-break."""
  if sort_by:
    if not isinstance(sort_by, str):
      return UNCONSTRAINED
    spec = (sort_by,)
  else:
    if isinstance(order_by, str):
      spec = (order_by,)
    elif order_by is None:
      spec = ()
    elif isinstance(order_by, tuple):
      spec = order_by
    else:
      return UNCONSTRAINED
    if "id" in spec:
      spec = spec[:spec.index("id")]
    elif has_manual_sort and "manualSort" not in spec:
      spec = spec + ("manualSort",)
  out = []
  for s in spec:
    if not isinstance(s, str):
      return UNCONSTRAINED
    out.append((s[1:], -1) if s.startswith("-") else (s, 1))
  return out


def matching_rows(tv, keys):
  """keys: {col: ('eq', value) | ('contains', value, match_empty or NO)}. Values are rich values
  already converted. Returns row ids ascending or UNCONSTRAINED."""
  out = []
  for r in tv.row_ids:
    ok = True
    for col, k in keys.items():
      cell = tv.value(r, col)
      if cell is UNCONSTRAINED:
        return UNCONSTRAINED
      if isinstance(cell, eq.Err):
        return UNCONSTRAINED       # an error in a key column: outside D0 (finding F-c)
      if k[0] == "eq":
        if isinstance(cell, tuple) and not (cell and cell[0] in ("date", "dt")):
          return UNCONSTRAINED     # list cell looked up without CONTAINS
        if not keys_equal(cell, k[1]):
          ok = False
          break
      else:
        _c, v, match_empty = k
        if isinstance(cell, (str, Alt)):
          ok = False               # strings are not containers here
          break
        if cell is None:
          cell = ()
        if not isinstance(cell, tuple):
          ok = False
          break
        elems = list(cell)
        if not elems and match_empty is not NO_MATCH_EMPTY:
          elems = [match_empty]
        if not any(keys_equal(e, v) for e in elems):
          ok = False
          break
    if ok:
      out.append(r)
  return out


NO_MATCH_EMPTY = object()


def order_rows(tv, rows, spec):
  """Sort row ids by spec [(col, sign)], then row id. UNCONSTRAINED if values are not mutually
  comparable."""
  if spec is UNCONSTRAINED:
    return UNCONSTRAINED
  if len(rows) <= 1:
    return list(rows)
  cols = []
  for col, sign in spec:
    vals = {}
    fams = set()
    for r in rows:
      v = tv.value(r, col)
      if v is UNCONSTRAINED or isinstance(v, eq.Err):
        return UNCONSTRAINED
      fams.add("alt" if isinstance(v, Alt) else family(v))
      vals[r] = v
    # Values of one kind compare as such. Across kinds the engine documents a fallback order
    # (sort_key.py / SafeSortKey): blanks first, then numbers, then everything else by the name
    # of its type; two values of one kind that cannot be compared (two blanks, two alt texts)
    # count as equal. Anything else (lists, booleans among numbers, NaN) is not modelled.
    if not fams <= {"num", "str", "date", "dt", "none", "alt"}:
      return UNCONSTRAINED
    cols.append((vals, sign))
  import functools
  def kind(v):
    if v is None:
      return (0, 0, "")
    if isinstance(v, Alt):
      return (1, 1, "AltText")
    f = family(v)
    if f == "num":
      return (1, 0, "number")
    return (1, 1, {"str": "str", "date": "date", "dt": "datetime"}[f])
  def cmp(a, b):
    for vals, sign in cols:
      x, y = vals[a], vals[b]
      kx, ky = kind(x), kind(y)
      if kx != ky:
        return -sign if kx < ky else sign
      if x is None or isinstance(x, Alt):
        continue
      if x < y:
        return -sign
      if y < x:
        return sign
    return -1 if a < b else (1 if a > b else 0)
  return sorted(rows, key=functools.cmp_to_key(cmp))


def cmp_values(tv, row, spec, values):
  """Compare row's first len(values) sort values with `values` under the signs of spec.
  Returns -1/0/1 or UNCONSTRAINED."""
  for (col, sign), v in zip(spec, values):
    x = tv.value(row, col)
    if x is UNCONSTRAINED or v is UNCONSTRAINED or isinstance(x, (Alt, eq.Err)) or isinstance(v, (Alt, eq.Err)):
      return UNCONSTRAINED
    if family(x) != family(v) or family(x) in ("none", "nan", "other", "bool"):
      return UNCONSTRAINED
    if x < v:
      return -sign
    if v < x:
      return sign
  return 0


# -- evaluating key expressions of our formula grammar -------------------------------------------

def eval_key_expr(node, own_tv, row_id):
  """Value of a lookup keyword argument for the formula's own row: `rec.c`, a literal, or
  CONTAINS(rec.c | literal [, match_empty=literal]). Returns ('eq', v) / ('contains', v, me) or
  UNCONSTRAINED."""
  def simple(n):
    if isinstance(n, ast.Attribute) and isinstance(n.value, ast.Name) and n.value.id == "rec":
      return own_tv.value(row_id, n.attr)
    try:
      return ast.literal_eval(n)
    except Exception:    # pylint: disable=broad-except
      return UNCONSTRAINED
  if isinstance(node, ast.Call) and isinstance(node.func, ast.Name) and node.func.id == "CONTAINS":
    if not node.args:
      return UNCONSTRAINED
    v = simple(node.args[0])
    me = NO_MATCH_EMPTY
    for kw in node.keywords:
      if kw.arg == "match_empty":
        me = simple(kw.value)
    if len(node.args) > 1:
      me = simple(node.args[1])
    if v is UNCONSTRAINED or me is UNCONSTRAINED:
      return UNCONSTRAINED
    return ("contains", v, me)
  v = simple(node)
  if v is UNCONSTRAINED:
    return UNCONSTRAINED
  return ("eq", v)


def lookup_result(snap, dv, lk, own_table_id, row_id):
  """Ordered row ids that `lk` (fx.Lookup) returns when evaluated for row_id of own_table_id."""
  if lk.table not in dv.tables or own_table_id not in dv.tables:
    return UNCONSTRAINED
  tv = TableView(snap, dv, lk.table)
  own = tv if lk.table == own_table_id else TableView(snap, dv, own_table_id)
  keys = {}
  for col, node in lk.keys.items():
    if tv.col_pure(col) is None:
      return UNCONSTRAINED
    k = eval_key_expr(node, own, row_id)
    if k is UNCONSTRAINED:
      return UNCONSTRAINED
    pure = tv.col_pure(col)
    if k[0] == "eq":
      v = convert_key(pure, k[1])
      if v is UNCONSTRAINED or isinstance(v, eq.Err):
        return UNCONSTRAINED
      keys[col] = ("eq", v)
    else:
      if pure not in ("ChoiceList", "RefList"):
        return UNCONSTRAINED
      v = k[1]
      if isinstance(v, (Alt, eq.Err)) or family(v) in ("nan", "other"):
        return UNCONSTRAINED
      keys[col] = k
  if lk.order_by is NotImplemented or lk.sort_by is NotImplemented:
    return UNCONSTRAINED
  spec = parse_spec(lk.order_by, lk.sort_by, "manualSort" in tv.t.cols)
  if spec is UNCONSTRAINED:
    return UNCONSTRAINED
  for col, _s in spec:
    if tv.col_pure(col) is None:
      return UNCONSTRAINED
  rows = matching_rows(tv, keys)
  if rows is UNCONSTRAINED:
    return UNCONSTRAINED
  return order_rows(tv, rows, spec)
