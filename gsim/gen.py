"""
Workload generator: state-aware, seeded, over the public user-action vocabulary, inside the
well-formed-document domain D0 of DESIGN section 4.2 unless a profile says otherwise.

Every op generator takes (g, dv) -- generator state and a DocView of the current Sigma -- and returns
a list of user actions (one "user action group" that belongs together) or None when it does not
apply to the current document. Profiles choose op weights (swarm style: a random subset per run).
"""
import json
import os

from . import fx

# -- value pools ---------------------------------------------------------------------------------

INT_POOL = [0, 1, 2, 3, 5, 7, 10, -1]
NUM_POOL = [0.5, 1.0, 2.5, -1.5, 3.0, 10.0, 0.0, 2]
TEXT_POOL = ["", "a", "b", "c", "ab", "A", "x y", "é", "1"]
CHOICES = ["a", "b", "c"]
DATE_POOL = [86400 * d for d in (19000, 19001, 19002, 19010, 19358)]
DATA_TYPES = ["Int", "Numeric", "Text", "Bool", "Choice", "ChoiceList", "Date"]
ALT_TEXT = ["abc", "n/a"]


class G(object):
  """Generator state for one run."""
  def __init__(self, rng, cfg=None):
    self.rng = rng
    self.cfg = cfg or {}
    self.ntab = 0
    self.ncol = 0
    self.alt_text_p = self.cfg.get("alt_text_p", 0.05)
    self.none_p = self.cfg.get("none_p", 0.1)
    self.max_tables = self.cfg.get("max_tables", 4)
    self.max_rows = self.cfg.get("max_rows", 12)
    self.max_cols = self.cfg.get("max_cols", 9)

  def new_table_id(self):
    self.ntab += 1
    return "T%d" % self.ntab

  def new_col_id(self, prefix="c"):
    self.ncol += 1
    return "%s%d" % (prefix, self.ncol)


def value_for(g, dv, col, allow_alt=True):
  """A cell value (encoded form) for a data column of col.type, from the type's pool."""
  rng = g.rng
  pure = col.pure
  if allow_alt and rng.random() < g.alt_text_p and pure in ("Int", "Numeric", "Date", "Bool"):
    return rng.choice(ALT_TEXT)
  if rng.random() < g.none_p and pure not in ("Ref", "RefList"):
    return None
  if pure == "Int":
    return rng.choice(INT_POOL)
  if pure == "Numeric":
    return rng.choice(NUM_POOL)
  if pure == "Text":
    return rng.choice(TEXT_POOL)
  if pure == "Bool":
    return rng.choice([True, False])
  if pure == "Choice":
    return rng.choice(CHOICES + [""])
  if pure == "ChoiceList":
    k = rng.randint(0, 3)
    if k == 0:
      return None
    if rng.random() < 0.2:
      # a list cell may hold the same element twice ("one key per *distinct* element")
      return ["L"] + [rng.choice(CHOICES) for _ in range(k + 1)]
    return ["L"] + rng.sample(CHOICES, k)
  if pure == "Date":
    return rng.choice(DATE_POOL)
  if pure == "DateTime":
    return rng.choice(DATE_POOL) + rng.choice([0, 3600, 43200.5])
  if pure == "Ref":
    t = dv.tables.get(col.target)
    rows = t.row_ids if t else []
    if not rows or rng.random() < 0.2:
      return 0
    return rng.choice(rows)
  if pure == "RefList":
    t = dv.tables.get(col.target)
    rows = t.row_ids if t else []
    k = rng.randint(0, min(3, len(rows)))
    if k == 0:
      return None
    if rng.random() < 0.15 and not getattr(col, "reverseCol", 0):
      return ["L"] + [rng.choice(rows) for _ in range(k + 1)]
    return ["L"] + rng.sample(rows, k)
  if pure in ("ManualSortPos", "PositionNumber"):
    return None
  return rng.choice(TEXT_POOL)


def writable_cols(dv, t, protected=None, allow_protected=True):
  """Data columns of table t a user may write: not formula, not manualSort/helpers, not summary
  group-by columns."""
  out = []
  for c in t.user_cols():
    if c.isFormula or c.summarySourceCol:
      continue
    if c.pure in ("ManualSortPos", "PositionNumber", "Attachments"):
      continue
    if not allow_protected and protected and (t.tableId, c.colId) in protected:
      continue
    out.append(c)
  return out


def _total_value(g, dv, col):
  """Value for a column in use as key/sort/group-by: right-typed, comparable, non-null, no alt
  text (D0: keys and sort columns are total)."""
  if g.cfg.get("blank_sort_p") and g.rng.random() < g.cfg["blank_sort_p"] and col.pure not in ("Ref", "RefList"):
    return None          # blanks have a defined place in every order (first), several of them tie
  if g.cfg.get("alt_sort_p") and g.rng.random() < g.cfg["alt_sort_p"] and col.pure in ("Date", "Int", "Numeric"):
    return g.rng.choice(ALT_TEXT)     # so has alt text (after numbers, before dates and text)
  for _ in range(8):
    v = value_for(g, dv, col, allow_alt=False)
    if v is not None or col.pure in ("ChoiceList", "RefList"):
      return v
  return {"Int": 0, "Numeric": 0.0, "Text": "", "Bool": False, "Choice": "",
          "Date": DATE_POOL[0], "DateTime": DATE_POOL[0]}.get(col.pure, 0)


def cell_value(g, dv, col, protected):
  if (col.table.tableId, col.colId) in protected:
    return _total_value(g, dv, col)
  return value_for(g, dv, col)


# -- record ops ----------------------------------------------------------------------------------

def data_tables(dv):
  return [t for t in dv.user_tables() if not t.is_summary]


def op_add_records(g, dv, protected):
  ts = [t for t in data_tables(dv) if len(t.row_ids) < g.max_rows]
  if not ts:
    return None
  t = g.rng.choice(ts)
  cols = writable_cols(dv, t)
  n = g.rng.choice([1, 1, 1, 2, 3])
  n = min(n, g.max_rows - len(t.row_ids))
  # Columns in use as keys must always be given a total value; others are optional.
  chosen = [c for c in cols if (t.tableId, c.colId) in protected or g.rng.random() < 0.7]
  if n == 1 and g.rng.random() < 0.6:
    return [["AddRecord", t.tableId, None, {c.colId: cell_value(g, dv, c, protected) for c in chosen}]]
  return [["BulkAddRecord", t.tableId, [None] * n,
           {c.colId: [cell_value(g, dv, c, protected) for _ in range(n)] for c in chosen}]]


def op_update_records(g, dv, protected):
  ts = [t for t in data_tables(dv) if t.row_ids and writable_cols(dv, t)]
  if not ts:
    return None
  t = g.rng.choice(ts)
  cols = writable_cols(dv, t)
  k = g.rng.randint(1, min(2, len(cols)))
  chosen = g.rng.sample(cols, k)
  n = g.rng.choice([1, 1, 2, 3])
  rows = g.rng.sample(t.row_ids, min(n, len(t.row_ids)))
  if len(rows) >= 2 and g.rng.random() < 0.15 and not any(c.reverseCol for c in chosen):
    # clients may batch edits so that one bulk update names a row more than once
    rows = rows + [g.rng.choice(rows)]
  if len(rows) == 1 and g.rng.random() < 0.6:
    return [["UpdateRecord", t.tableId, rows[0],
             {c.colId: cell_value(g, dv, c, protected) for c in chosen}]]
  return [["BulkUpdateRecord", t.tableId, rows,
           {c.colId: [cell_value(g, dv, c, protected) for _ in rows] for c in chosen}]]


def op_remove_records(g, dv, protected):
  ts = [t for t in data_tables(dv) if t.row_ids]
  if not ts:
    return None
  t = g.rng.choice(ts)
  n = g.rng.choice([1, 1, 2])
  rows = g.rng.sample(t.row_ids, min(n, len(t.row_ids)))
  if len(rows) == 1:
    return [["RemoveRecord", t.tableId, rows[0]]]
  return [["BulkRemoveRecord", t.tableId, rows]]


# -- schema ops ----------------------------------------------------------------------------------

def _col_info(g, dv, ctype):
  info = {"type": ctype, "isFormula": False}
  if ctype in ("Choice", "ChoiceList"):
    info["widgetOptions"] = json.dumps({"choices": CHOICES})
  return info


def op_add_table(g, dv, protected):
  if len(data_tables(dv)) >= g.max_tables:
    return None
  tid = g.new_table_id()
  cols = []
  for _ in range(g.rng.randint(1, 3)):
    ctype = g.rng.choice(DATA_TYPES)
    info = _col_info(g, dv, ctype)
    info["id"] = g.new_col_id()
    cols.append(info)
  acts = [["AddTable", tid, cols]]
  n = g.rng.randint(0, 4)
  if n:
    # Rows are added in a separate user action of the same bundle; column ids are known (fresh).
    class _C(object):
      pass
    vals = {}
    for info in cols:
      c = _C()
      c.pure = info["type"]
      c.target = None
      c.type = info["type"]
      vals[info["id"]] = [value_for(g, dv, c) for _ in range(n)]
    acts.append(["BulkAddRecord", tid, [None] * n, vals])
  return acts


def op_add_data_column(g, dv, protected):
  ts = [t for t in data_tables(dv) if len(t.user_cols()) < g.max_cols]
  if not ts:
    return None
  t = g.rng.choice(ts)
  choices = list(DATA_TYPES)
  targets = data_tables(dv)
  if targets:
    choices += ["Ref", "Ref", "RefList"]
  ctype = g.rng.choice(choices)
  if ctype in ("Ref", "RefList"):
    sums = [st for st in dv.summary_tables() if st.row_ids]
    if sums and g.cfg.get("ref_to_summary_p") and g.rng.random() < g.cfg["ref_to_summary_p"]:
      # a reference to the rows of a summary table: they come and go with the source's data
      ctype = "Ref:%s" % g.rng.choice(sums).tableId
    else:
      ctype = "%s:%s" % (ctype, g.rng.choice(targets).tableId)
  info = _col_info(g, dv, ctype)
  return [["AddColumn", t.tableId, g.new_col_id(), info]]


# Formula grammar (DESIGN 4.3). Each entry renders a formula for a new column in table t using only
# columns created earlier (smaller colRef), so the reference graph is acyclic by construction.

def _earlier(dv, t, limit_ref=None, pred=None):
  out = []
  for c in t.user_cols():
    if limit_ref is not None and c.ref >= limit_ref:
      continue
    if c.is_empty:
      continue
    if pred and not pred(c):
      continue
    out.append(c)
  return out


def _numeric(c):
  return c.pure in ("Int", "Numeric") and not c.summarySourceCol


def _keyable(c):
  # lookup keys / sort columns / group-by: data columns of comparable scalar types
  return (not c.isFormula and not c.formula and c.pure in ("Int", "Numeric", "Text", "Choice", "Date", "Bool")
          and not c.summarySourceCol)


# ("sumlookup" only where a profile asks for it: finding F-p)
DEFAULT_FORMULA_KINDS = ["arith", "arith", "str", "ref", "ref", "reflist", "lookup", "lookup", "lookupone",
                         "count", "all", "twopath", "twopath", "contains", "find", "prevnext", "lazy",
                         "swallow"]


def gen_formula(g, dv, t, limit_ref=None, kinds=None):
  """Return a formula text for a column of table t (None if nothing applies)."""
  rng = g.rng
  kinds = list(kinds or g.cfg.get("formula_kinds", DEFAULT_FORMULA_KINDS))
  rng.shuffle(kinds)
  own = _earlier(dv, t, limit_ref)
  for kind in kinds:
    if kind == "arith":
      nums = [c for c in own if _numeric(c)]
      if nums:
        a = rng.choice(nums)
        b = rng.choice(nums)
        k = rng.choice([0, 1, 2, 10])
        return "($%s or 0) + ($%s or 0) + %d" % (a.colId, b.colId, k)
    elif kind == "lazy":
      # column references inside a lambda: the lazily evaluated arguments of IF/IFERROR are
      # wrapped into lambdas by the code generator, and users write lambdas themselves
      nums = [c for c in own if _numeric(c)]
      if nums:
        a = rng.choice(nums).colId
        b = rng.choice(nums).colId
        return rng.choice([
          "IF(($%s or 0) > 1, ($%s or 0) + 1, ($%s or 0) - 1)" % (a, b, a),
          "IFERROR(10 / ($%s or 0), $%s)" % (a, b),
          "(lambda v: v + ($%s or 0))(rec.%s or 0)" % (a, b),
          "IF(True, rec.%s, $%s)" % (a, b),
        ])
    elif kind == "sumlookup":
      # a formula that names a summary table (which is renamed along with its source table and
      # with its group-by columns)
      cands = []
      for st in dv.summary_tables():
        if st.summarySource != t.ref:
          continue
        gb = [(c.colId, dv.col_by_ref.get(c.summarySourceCol)) for c in st.cols.values() if c.summarySourceCol]
        if gb and all(sc is not None and sc.pure not in ("ChoiceList", "RefList") for _cid, sc in gb):
          cands.append((st, gb))
      if cands:
        st, gb = rng.choice(cands)
        return "%s.lookupOne(%s).count" % (st.tableId, ", ".join("%s=$%s" % (cid, sc.colId) for cid, sc in sorted(gb)))
    elif kind == "dictval":
      # containers in an Any cell: a dict (RECORD) whose values are dates, lists, records
      # (plain data columns only: the text of a record or record set names tables and columns,
      # which renames change -- see the note on str() over references)
      cols = [c for c in own if not c.isFormula and not c.formula and c.pure not in ("Ref", "RefList")]
      if cols:
        a = rng.choice(cols).colId
        b = rng.choice(cols).colId
        return rng.choice(["{'x': $%s, 'l': [$%s, 1], 'd': {'in': $%s}}" % (a, b, a),
                           "{'v': ($%s,), 'n': None, 'k': {'z': [$%s]}}" % (a, b)])
    elif kind == "swallow":
      # a formula that swallows whatever reading another formula column raises (the engine's own
      # "not computed yet" signal included) and then reads on
      fcols = [c for c in own if c.isFormula and c.formula]
      if fcols and len(own) >= 2:
        f = rng.choice(fcols).colId
        c2 = rng.choice([c for c in own if c.colId != f]).colId
        return rng.choice([
          "x = IFERROR($%s, -1)\ny = $%s\nx if isinstance(x, (int, float, str)) else 0" % (f, c2),
          "try:\n  x = $%s\nexcept Exception:\n  x = -1\ny = $%s\nx if isinstance(x, (int, float, str)) else 0" % (f, c2),
          "x = ISERROR($%s)\ny = $%s\n(x, y is None)" % (f, c2),
        ])
    elif kind == "str":
      # not on reference columns: str(record) embeds the table id, which a table rename changes
      plain = [c for c in own if c.pure not in ("Ref", "RefList") and "lookupOne" not in c.formula]
      if plain:
        a = rng.choice(plain)
        return rng.choice(["str($%s)", "UPPER(str($%s))", "len(str($%s))"]) % a.colId
    elif kind == "ref":
      refs = [c for c in own if c.pure == "Ref" and c.target in dv.tables]
      if refs:
        r = rng.choice(refs)
        tc = [c for c in _earlier(dv, dv.tables[r.target], limit_ref)
              if c.pure in ("Int", "Numeric", "Text", "Choice")]
        if tc:
          return "$%s.%s" % (r.colId, rng.choice(tc).colId)
        return "$%s.id" % r.colId
    elif kind == "reflist":
      refs = [c for c in own if c.pure == "RefList" and c.target in dv.tables]
      if refs:
        r = rng.choice(refs)
        tc = [c for c in _earlier(dv, dv.tables[r.target], limit_ref) if _numeric(c)]
        if tc and rng.random() < 0.6:
          return "sum((x.%s or 0) if isinstance(x.%s, (int, float)) else 0 for x in $%s)" % (
            tc[0].colId, tc[0].colId, r.colId)
        return "len($%s)" % r.colId
    elif kind in ("lookup", "lookupone", "count"):
      f = gen_lookup(g, dv, t, limit_ref, kind)
      if f:
        return f
    elif kind == "contains":
      f = gen_contains(g, dv, t, limit_ref)
      if f:
        return f
    elif kind == "twopath":
      f = gen_twopath(g, dv, t, limit_ref)
      if f:
        return f
    elif kind == "find":
      f = gen_find(g, dv, t, limit_ref)
      if f:
        return f
    elif kind == "prevnext":
      f = gen_prevnext(g, dv, t, limit_ref)
      if f:
        return f
    elif kind == "all":
      others = data_tables(dv)
      if others:
        o = rng.choice(others)
        return "len(%s.all)" % o.tableId
  return None


def gen_lookup(g, dv, t, limit_ref, kind, with_order=None):
  rng = g.rng
  targets = [o for o in data_tables(dv)]
  rng.shuffle(targets)
  own = _earlier(dv, t, limit_ref)
  for o in targets:
    keycols = [c for c in _earlier(dv, o, limit_ref) if _keyable(c)]
    if not keycols:
      continue
    kc = rng.choice(keycols)
    # the key expression: a column of our own table with the same pure type, or a constant
    same = [c for c in own if c.pure == kc.pure and not c.formula and not c.isFormula]
    if same and rng.random() < 0.8:
      kexpr = "$" + rng.choice(same).colId
    else:
      kexpr = repr(_const_for(rng, kc))
    order = ""
    sortcols = [c for c in keycols if c.pure in ("Int", "Numeric", "Text", "Date")]
    if g.cfg.get("rich_specs") and rng.random() < 0.7:
      order = _sort_spec_text(rng, sortcols)
      if rng.random() < 0.3 and len(keycols) > 1:
        # two key columns
        kc2 = rng.choice([c for c in keycols if c.colId != kc.colId])
        same2 = [c for c in own if c.pure == kc2.pure and not c.formula and not c.isFormula]
        k2 = ("$" + rng.choice(same2).colId) if same2 else repr(_const_for(rng, kc2))
        order = ", %s=%s%s" % (kc2.colId, k2, order)
    elif (with_order or (with_order is None and rng.random() < 0.4)) and sortcols:
      s = rng.choice(sortcols)
      spec = rng.choice(['"%s"', '"-%s"']) % s.colId
      if rng.random() < 0.25 and len(sortcols) > 1:
        s2 = rng.choice(sortcols)
        spec = '(%s, "%s%s")' % (spec, rng.choice(["", "-"]), s2.colId)
      order = ", order_by=%s" % spec
    elif with_order is None and rng.random() < 0.1:
      order = ", order_by=None"
    call = "%s.lookupRecords(%s=%s%s)" % (o.tableId, kc.colId, kexpr, order)
    if kind == "lookup":
      return "[r.id for r in %s]" % call
    if kind == "count":
      return "len(%s)" % call
    return "%s.lookupOne(%s=%s%s).id" % (o.tableId, kc.colId, kexpr, order)
  return None


NO_SORT_BY = [False]     # set by profiles for which legacy sort_by= is outside the property (C16)


def _sort_spec_text(rng, sortcols, allow_id=True):
  """A random order_by/sort_by keyword text over the given candidate sort columns."""
  k = rng.random()
  if not sortcols or k < 0.08:
    return rng.choice(["", ", order_by=None", ', order_by="id"'] if allow_id else ["", ", order_by=None"])
  s = rng.choice(sortcols)
  one = '"%s%s"' % (rng.choice(["", "-"]), s.colId)
  if k < 0.2 and not NO_SORT_BY[0]:
    return ', sort_by="%s"' % s.colId
  if k < 0.45 and len(sortcols) > 1:
    s2 = rng.choice([c for c in sortcols if c.colId != s.colId] or sortcols)
    tail = rng.choice(['', ', "id"'])
    return ', order_by=(%s, "%s%s"%s)' % (one, rng.choice(["", "-"]), s2.colId, tail)
  return ", order_by=%s" % one


def gen_contains(g, dv, t, limit_ref):
  """[r.id for r in T.lookupRecords(listcol=CONTAINS($x or const[, match_empty=v]) ...)]"""
  rng = g.rng
  targets = data_tables(dv)
  rng.shuffle(targets)
  own = _earlier(dv, t, limit_ref)
  for o in targets:
    lists = [c for c in _earlier(dv, o, limit_ref)
             if c.pure in ("ChoiceList", "RefList") and not c.isFormula and not c.formula]
    if not lists:
      continue
    lc = rng.choice(lists)
    if lc.pure == "ChoiceList":
      same = [c for c in own if c.pure in ("Choice", "Text") and not c.formula and not c.isFormula]
      kexpr = ("$" + rng.choice(same).colId) if same and rng.random() < 0.6 else repr(rng.choice(CHOICES + [""]))
      me = rng.choice(["", ', match_empty=""', ", match_empty='a'"])
    else:
      kexpr = rng.choice(["$id", "1", "2", "0"])
      me = rng.choice(["", ", match_empty=0"])
    sortcols = [c for c in _earlier(dv, o, limit_ref) if _keyable(c) and c.pure != "Choice"]
    order = _sort_spec_text(rng, sortcols) if rng.random() < 0.5 else ""
    return "[r.id for r in %s.lookupRecords(%s=CONTAINS(%s%s)%s)]" % (o.tableId, lc.colId, kexpr, me, order)
  return None


def gen_twopath(g, dv, t, limit_ref):
  """A formula that reaches one column of another table along two different relations:
  two reference columns into the same table, a reference plus a lookup, or the row's own value
  plus its PREVIOUS neighbour's."""
  rng = g.rng
  own = _earlier(dv, t, limit_ref)
  refs = [c for c in own if c.pure == "Ref" and c.target in dv.tables and not c.isFormula]
  def num(x):
    return "(%s if isinstance(%s, (int, float)) else 0)" % (x, x)
  shapes = []
  by_target = {}
  for r in refs:
    by_target.setdefault(r.target, []).append(r)
  for target, rs in by_target.items():
    tc = [c for c in _earlier(dv, dv.tables[target], limit_ref) if _numeric(c)]
    if not tc:
      continue
    v = rng.choice(tc).colId
    if len(rs) >= 2:
      a, b = rng.sample(rs, 2)
      shapes.append("%s + %s" % (num("$%s.%s" % (a.colId, v)), num("$%s.%s" % (b.colId, v))))
    keys = [c for c in _earlier(dv, dv.tables[target], limit_ref) if _keyable(c)]
    same = [(k, c) for k in keys for c in own if c.pure == k.pure and not c.formula and not c.isFormula]
    if same:
      k, c = rng.choice(same)
      shapes.append("%s + %s" % (num("$%s.%s" % (rs[0].colId, v)),
                                 num("%s.lookupOne(%s=$%s).%s" % (target, k.colId, c.colId, v))))
  nums = [c for c in own if _numeric(c) and not c.formula]
  sorts = [c for c in own if _keyable(c) and c.pure in ("Int", "Numeric", "Text", "Date")]
  if nums and sorts:
    a = rng.choice(nums).colId
    shapes.append('%s + %s' % (num("$" + a), num('PREVIOUS(rec, order_by="%s").%s' % (rng.choice(sorts).colId, a))))
  selfrefs = [c for c in refs if c.target == t.tableId]
  if selfrefs and nums:
    a = rng.choice(nums).colId
    shapes.append("%s + %s" % (num("$" + a), num("$%s.%s" % (rng.choice(selfrefs).colId, a))))
  return rng.choice(shapes) if shapes else None


def gen_find(g, dv, t, limit_ref):
  """T.lookupRecords(k=.., order_by=spec).find.OP($p[, $p2]).id"""
  rng = g.rng
  targets = data_tables(dv)
  rng.shuffle(targets)
  own = _earlier(dv, t, limit_ref)
  for o in targets:
    keycols = [c for c in _earlier(dv, o, limit_ref) if _keyable(c)]
    sortcols = [c for c in keycols if c.pure in ("Int", "Numeric", "Text", "Date")]
    if not sortcols:
      continue
    s = rng.choice(sortcols)
    sign = rng.choice(["", "-"])
    spec = '"%s%s"' % (sign, s.colId)
    probes = [c for c in own if c.pure == s.pure and not c.formula and not c.isFormula]
    p = ("$" + rng.choice(probes).colId) if probes and rng.random() < 0.8 else repr(_const_for(rng, s))
    if p == "None":
      continue
    args = p
    if rng.random() < 0.25 and len(sortcols) > 1:
      s2 = rng.choice([c for c in sortcols if c.colId != s.colId] or sortcols)
      probes2 = [c for c in own if c.pure == s2.pure and not c.formula and not c.isFormula]
      if probes2:
        spec = '(%s, "%s%s")' % (spec, rng.choice(["", "-"]), s2.colId)
        args = "%s, $%s" % (p, rng.choice(probes2).colId)
    kc = rng.choice(keycols)
    same = [c for c in own if c.pure == kc.pure and not c.formula and not c.isFormula]
    if same and rng.random() < 0.7:
      key = "%s=$%s, " % (kc.colId, rng.choice(same).colId)
    else:
      key = ""
    op = rng.choice(["lt", "le", "gt", "ge", "eq"])
    return "%s.lookupRecords(%sorder_by=%s).find.%s(%s).id" % (o.tableId, key, spec, op, args)
  return None


def gen_prevnext(g, dv, t, limit_ref):
  rng = g.rng
  own = [c for c in _earlier(dv, t, limit_ref) if _keyable(c)]
  sortcols = [c for c in own if c.pure in ("Int", "Numeric", "Text", "Date")]
  fn = rng.choice(["PREVIOUS", "NEXT", "RANK"])
  parts = ["rec"]
  if own and rng.random() < 0.5:
    gb = rng.sample(own, min(len(own), rng.choice([1, 1, 2])))
    parts.append("group_by=%s" % (repr(gb[0].colId) if len(gb) == 1 else repr(tuple(c.colId for c in gb))))
  k = rng.random()
  if not sortcols or k < 0.15:
    parts.append("order_by=None")
  else:
    s = rng.choice(sortcols)
    one = "%s%s" % (rng.choice(["", "-"]), s.colId)
    if k < 0.4 and len(sortcols) > 1:
      s2 = rng.choice([c for c in sortcols if c.colId != s.colId] or sortcols)
      parts.append("order_by=%r" % ((one, "%s%s" % (rng.choice(["", "-"]), s2.colId)),))
    else:
      parts.append("order_by=%r" % one)
  if fn == "RANK":
    if rng.random() < 0.5:
      parts.append("order=%r" % rng.choice(["asc", "desc"]))
    return "RANK(%s)" % ", ".join(parts)
  return "%s(%s).id" % (fn, ", ".join(parts))


def _const_for(rng, c):
  return {"Int": rng.choice(INT_POOL), "Numeric": rng.choice(NUM_POOL),
          "Text": rng.choice(TEXT_POOL), "Choice": rng.choice(CHOICES),
          # a Date column is looked up by timestamp (any time of that day), a Bool column also by None
          "Date": rng.choice(DATE_POOL) + rng.choice([0, 3600, 86399]),
          "Bool": rng.choice([None, True, False])}.get(c.pure, None)


def op_add_formula_column(g, dv, protected):
  ts = [t for t in data_tables(dv) if len(t.user_cols()) < g.max_cols]
  if not ts:
    return None
  t = g.rng.choice(ts)
  refs = [c for c in _earlier(dv, t) if c.pure in ("Ref", "RefList") and c.target in dv.tables
          and not c.isFormula and not dv.tables[c.target].is_summary]
  if refs and g.rng.random() < 0.12:
    # a formula column of reference type (it keeps its own back-references, like a data column),
    # which later formulas can read through
    r = g.rng.choice(refs)
    return [["AddColumn", t.tableId, g.new_col_id("f"), {"type": r.type, "isFormula": True,
                                                         "formula": "$%s" % r.colId}]]
  f = gen_formula(g, dv, t)
  if not f:
    return None
  return [["AddColumn", t.tableId, g.new_col_id("f"), {"type": "Any", "isFormula": True, "formula": f}]]


def removable_cols(dv, t, protected):
  out = []
  for c in t.user_cols():
    if (t.tableId, c.colId) in protected or c.summarySourceCol or c.reverseCol:
      continue
    out.append(c)
  return out


def op_remove_column(g, dv, protected):
  cands = [(t, c) for t in data_tables(dv) for c in removable_cols(dv, t, protected)
           if len(t.user_cols()) > 1]
  if not cands:
    return None
  t, c = g.rng.choice(cands)
  if g.rng.random() < 0.25:
    return [["RemoveRecord", "_grist_Tables_column", c.ref]]
  return [["RemoveColumn", t.tableId, c.colId]]


def op_rename_column(g, dv, protected):
  legacy = fx.used_in_sort_by(dv)
  cands = [(t, c) for t in data_tables(dv) for c in t.user_cols() if (t.tableId, c.colId) not in legacy]
  if not cands:
    return None
  t, c = g.rng.choice(cands)
  new = g.new_col_id("r")
  path = g.rng.random()
  if path < 0.5:
    return [["RenameColumn", t.tableId, c.colId, new]]
  if path < 0.75:
    return [["UpdateRecord", "_grist_Tables_column", c.ref, {"colId": new}]]
  return [["ModifyColumn", t.tableId, c.colId, {"label": new}]] if not c.untie else \
         [["RenameColumn", t.tableId, c.colId, new]]


def op_rename_table(g, dv, protected):
  ts = data_tables(dv)
  if not ts:
    return None
  t = g.rng.choice(ts)
  new = g.new_table_id()
  if g.rng.random() < 0.7:
    return [["RenameTable", t.tableId, new]]
  return [["UpdateRecord", "_grist_Tables", t.ref, {"tableId": new}]]


def op_remove_table(g, dv, protected):
  ts = data_tables(dv)
  if len(ts) < 2:
    return None
  # D0: do not remove a table whose columns are in use as lookup keys from elsewhere.
  ts = [t for t in ts if not any(tid == t.tableId for (tid, _c) in protected)]
  if not ts:
    return None
  t = g.rng.choice(ts)
  if g.rng.random() < 0.3:
    return [["RemoveRecord", "_grist_Tables", t.ref]]
  return [["RemoveTable", t.tableId]]


CONVERTIBLE = ["Int", "Numeric", "Text", "Bool", "Choice", "Date"]

def op_modify_type(g, dv, protected):
  cands = [(t, c) for t in data_tables(dv) for c in t.user_cols()
           if not c.isFormula and not c.formula and c.pure in CONVERTIBLE + ["ChoiceList"]
           and (t.tableId, c.colId) not in protected and not c.reverseCol]
  if not cands:
    return None
  t, c = g.rng.choice(cands)
  new = g.rng.choice([x for x in CONVERTIBLE + ["ChoiceList"] if x != c.pure])
  info = {"type": new}
  if new in ("Choice", "ChoiceList"):
    info["widgetOptions"] = json.dumps({"choices": CHOICES})
  return [["ModifyColumn", t.tableId, c.colId, info]]


def op_modify_formula(g, dv, protected):
  cands = [(t, c) for t in data_tables(dv) for c in t.user_cols()
           if c.isFormula and c.formula and (t.tableId, c.colId) not in protected]
  if not cands:
    return None
  t, c = g.rng.choice(cands)
  f = gen_formula(g, dv, t, limit_ref=c.ref)
  if not f or f == c.formula:
    return None
  return [["ModifyColumn", t.tableId, c.colId, {"formula": f}]]


def op_toggle_formula(g, dv, protected):
  """Formula column -> data column (values frozen), or data column -> formula column."""
  cands = [(t, c) for t in data_tables(dv) for c in t.user_cols()
           if (t.tableId, c.colId) not in protected and not c.reverseCol
           and not c.summarySourceCol and not (c.is_data and c.formula)]
  if not cands:
    return None
  t, c = g.rng.choice(cands)
  if c.isFormula and c.formula:
    return [["ModifyColumn", t.tableId, c.colId, {"isFormula": False}]]
  if not c.isFormula and c.pure not in ("Ref", "RefList"):
    f = gen_formula(g, dv, t, limit_ref=c.ref, kinds=["arith", "str"])
    if f:
      info = {"isFormula": True, "formula": f}
      if g.rng.random() < 0.4:
        # the same action may change the type as well (lossy conversions of the stored values)
        info["type"] = g.rng.choice([x for x in ("Any", "Int", "Text", "Numeric", "Bool") if x != c.pure])
      if g.rng.random() < 0.3:
        return [["UpdateRecord", "_grist_Tables_column", c.ref, info]]
      return [["ModifyColumn", t.tableId, c.colId, info]]
  return None


# -- views, pages, summaries ---------------------------------------------------------------------

def op_add_view_section(g, dv, protected):
  ts = data_tables(dv)
  if not ts:
    return None
  t = g.rng.choice(ts)
  views = [r for r, _rec in dv.records("_grist_Views")]
  view = g.rng.choice(views) if views and g.rng.random() < 0.6 else 0
  return [["CreateViewSection", t.ref, view, g.rng.choice(["record", "detail", "single", "chart"]),
           None, None]]


def _groupby_candidates(dv, t, g=None):
  pures = ("Int", "Text", "Choice", "ChoiceList", "Bool", "Date")
  if g is not None and g.cfg.get("groupby_refs"):
    pures += ("Ref",)
  return [c for c in t.user_cols()
          if not c.isFormula and not c.formula and not c.reverseCol and c.pure in pures]


def op_add_summary(g, dv, protected):
  ts = [t for t in data_tables(dv)]
  if not ts or len(dv.summary_tables()) >= g.cfg.get("max_summaries", 3):
    return None
  t = g.rng.choice(ts)
  cands = _groupby_candidates(dv, t, g)
  k = g.rng.randint(0, min(2, len(cands)))
  gb = sorted(c.ref for c in g.rng.sample(cands, k))
  views = [r for r, _rec in dv.records("_grist_Views")]
  view = g.rng.choice(views) if views and g.rng.random() < 0.6 else 0
  return [["CreateViewSection", t.ref, view, "record", gb, None]]


def summary_sections(dv):
  out = []
  for r, rec in dv.records("_grist_Views_section"):
    t = dv.table_by_ref.get(rec["tableRef"])
    if t is not None and t.is_summary and r != t.rawSection and r != t.cardSection:
      out.append((r, rec, t))
  return out


def op_update_summary(g, dv, protected):
  secs = summary_sections(dv)
  if not secs:
    return None
  r, _rec, st = g.rng.choice(secs)
  src = dv.table_by_ref.get(st.summarySource)
  if src is None:
    return None
  cands = _groupby_candidates(dv, src, g)
  k = g.rng.randint(0, min(2, len(cands)))
  gb = sorted(c.ref for c in g.rng.sample(cands, k))
  return [["UpdateSummaryViewSection", r, gb]]


def op_detach_summary(g, dv, protected):
  secs = summary_sections(dv)
  if not secs or len(data_tables(dv)) >= g.max_tables + 1:
    return None
  r, _rec, _st = g.rng.choice(secs)
  return [["DetachSummaryViewSection", r]]


def op_add_summary_formula(g, dv, protected):
  sts = dv.summary_tables()
  if not sts:
    return None
  st = g.rng.choice(sts)
  src = dv.table_by_ref.get(st.summarySource)
  if src is None:
    return None
  nums = [c for c in src.user_cols() if _numeric(c)]
  if nums and g.rng.random() < 0.7:
    c = g.rng.choice(nums)
    f = "SUM(x for x in $group.%s if isinstance(x, (int, float)))" % c.colId
  else:
    f = "len($group) * 2"
  return [["AddColumn", st.tableId, g.new_col_id("s"), {"type": "Any", "isFormula": True, "formula": f}]]


def op_remove_view_things(g, dv, protected):
  kind = g.rng.choice(["section", "view", "page", "field"])
  if kind == "section":
    raw = {t.rawSection for t in dv.tables.values()} | {t.cardSection for t in dv.tables.values()}
    secs = [r for r, _rec in dv.records("_grist_Views_section") if r not in raw]
    if secs:
      r = g.rng.choice(secs)
      return [g.rng.choice([["RemoveViewSection", r], ["RemoveRecord", "_grist_Views_section", r]])]
  if kind == "view":
    views = [r for r, _rec in dv.records("_grist_Views")]
    if len(views) > 1:
      r = g.rng.choice(views)
      return [g.rng.choice([["RemoveView", r], ["RemoveRecord", "_grist_Views", r]])]
  if kind == "page":
    pages = [r for r, _rec in dv.records("_grist_Pages")]
    if len(pages) > 1:
      return [["RemoveRecord", "_grist_Pages", g.rng.choice(pages)]]
  if kind == "field":
    raw = {t.rawSection for t in dv.tables.values()}
    fields = [r for r, rec in dv.records("_grist_Views_section_field") if rec["parentId"] not in raw]
    if fields:
      return [["RemoveRecord", "_grist_Views_section_field", g.rng.choice(fields)]]
  return None


def op_set_sort(g, dv, protected):
  """Give a view section a sort spec over columns of its table (RemoveColumn must clean it up)."""
  secs = []
  for r, rec in dv.records("_grist_Views_section"):
    t = dv.table_by_ref.get(rec["tableRef"])
    if t is not None and not t.is_summary and t.user_cols():
      secs.append((r, t))
  if not secs:
    return None
  acts = []
  for r, t in g.rng.sample(secs, min(len(secs), g.rng.choice([1, 2, 3]))):
    cols = g.rng.sample(t.user_cols(), min(len(t.user_cols()), g.rng.randint(1, 2)))
    spec = [c.ref * g.rng.choice([1, -1]) for c in cols]
    acts.append(["UpdateRecord", "_grist_Views_section", r, {"sortColRefs": json.dumps(spec)}])
  return acts


def op_add_view(g, dv, protected):
  ts = data_tables(dv)
  if not ts:
    return None
  t = g.rng.choice(ts)
  return [["AddView", t.tableId, g.rng.choice(["raw_data", "empty"]), "V%d" % g.rng.randint(1, 99)]]


def op_page_indent(g, dv, protected):
  pages = sorted(dv.records("_grist_Pages"), key=lambda p: p[1]["pagePos"])
  if len(pages) < 2:
    return None
  # Set a valid indentation on a random non-first page: at most one deeper than the previous page.
  i = g.rng.randint(1, len(pages) - 1)
  if g.cfg.get("wild_indent_p") and g.rng.random() < g.cfg["wild_indent_p"]:
    # any indentation at all, as a client may write it: the list need not be a valid tree
    return [["UpdateRecord", "_grist_Pages", pages[g.rng.randint(0, len(pages) - 1)][0],
             {"indentation": g.rng.randint(0, 4)}]]
  prev = pages[i - 1][1]["indentation"] or 0
  nxt = pages[i + 1][1]["indentation"] if i + 1 < len(pages) else 0
  lo = max(0, (nxt or 0) - 1)
  hi = prev + 1
  if lo > hi:
    return None
  return [["UpdateRecord", "_grist_Pages", pages[i][0], {"indentation": g.rng.randint(lo, hi)}]]


# -- references, display columns, rules ----------------------------------------------------------

def op_add_reverse(g, dv, protected):
  cands = [(t, c) for t in data_tables(dv) for c in t.user_cols()
           if c.pure in ("Ref", "RefList") and not c.isFormula and not c.formula
           and not c.reverseCol and c.target in dv.tables and not dv.tables[c.target].is_summary
           and (t.tableId, c.colId) not in protected]
  if not cands:
    return None
  t, c = g.rng.choice(cands)
  return [["AddReverseColumn", t.tableId, c.colId]]


def op_display_formula(g, dv, protected):
  cands = [(t, c) for t in data_tables(dv) for c in t.user_cols()
           if c.pure == "Ref" and c.target in dv.tables and not c.isFormula]
  if not cands:
    return None
  t, c = g.rng.choice(cands)
  tc = [x for x in dv.tables[c.target].user_cols() if x.pure in ("Text", "Int", "Numeric", "Choice")]
  if not tc:
    return None
  x = g.rng.choice(tc)
  return [["UpdateRecord", "_grist_Tables_column", c.ref, {"visibleCol": x.ref}],
          ["SetDisplayFormula", t.tableId, None, c.ref, "$%s.%s" % (c.colId, x.colId)]]


def op_add_rule(g, dv, protected):
  cands = [(t, c) for t in data_tables(dv) for c in t.user_cols()]
  if not cands:
    return None
  t, c = g.rng.choice(cands)
  if g.rng.random() < 0.3:
    return [["AddEmptyRule", t.tableId, 0, 0]]
  return [["AddEmptyRule", t.tableId, 0, c.ref]]


def op_duplicate_table(g, dv, protected):
  ts = data_tables(dv)
  if not ts or len(ts) >= g.max_tables:
    return None
  t = g.rng.choice(ts)
  return [["DuplicateTable", t.tableId, g.new_table_id(), g.rng.random() < 0.6]]


def op_trigger_column(g, dv, protected):
  """Add a trigger-formula (data column with formula) with seeded recalcWhen / recalcDeps."""
  ts = [t for t in data_tables(dv) if len(t.user_cols()) < g.max_cols]
  if not ts:
    return None
  t = g.rng.choice(ts)
  deps = [c for c in t.user_cols() if not c.isFormula]
  when = g.rng.choice([0, 0, 1, 2])
  chosen = g.rng.sample(deps, min(len(deps), g.rng.randint(0, 2))) if when == 0 else []
  nums = [c for c in deps if _numeric(c)]
  f = "(value if isinstance(value, (int, float)) else 0) + 1"
  info = {"type": "Numeric", "isFormula": False, "formula": f, "recalcWhen": when}
  _ = nums
  # An existing trigger column is (re)configured instead, half of the time. recalcDeps are set by
  # an update of the metadata record, as the Grist client does: ModifyColumn cannot carry a list
  # value, and an encoded list inside AddColumn's col_info is stored as alt text and fails after
  # the engine's rollback scope (an instance of finding F-l).
  existing = [c for tt in data_tables(dv) for c in tt.user_cols() if c.is_trigger]
  if existing and g.rng.random() < 0.5:
    c = g.rng.choice(existing)
    pool = [x for x in c.table.user_cols() if not x.isFormula]
    picked = g.rng.sample(pool, min(len(pool), g.rng.randint(0, 2)))
    upd = {"recalcDeps": (["L"] + sorted(x.ref for x in picked)) if picked else None}
    if g.rng.random() < 0.4:
      upd["recalcWhen"] = g.rng.choice([0, 1, 2])
    return [["UpdateRecord", "_grist_Tables_column", c.ref, upd]]
  _ = chosen
  return [["AddColumn", t.tableId, g.new_col_id("t"), info]]


def op_derived_trigger(g, dv, protected):
  """A data column whose trigger formula has a side effect when evaluated: it looks a record up in
  another table and adds it when missing (what summary tables do). With recalcWhen NEVER (1) the cells
  are only ever evaluated by read-only calls (get_formula_error, evaluate_formula), at a time when
  the record they would add may well be missing."""
  ts = [t for t in data_tables(dv) if len(t.user_cols()) < g.max_cols]
  if not ts:
    return None
  t = g.rng.choice(ts)
  srcs = [c for c in t.user_cols() if not c.isFormula and c.pure in ("Int", "Text", "Choice")]
  if not srcs:
    return None
  a = g.rng.choice(srcs)
  # The record is added to ANOTHER table, and that table adds none in turn: a formula that adds a
  # record to a table whose records run such a formula again is a program that need not terminate
  # (each new record asks for one more), which is not the engine's to fix.
  def adds(tbl):
    return any("lookupOrAddDerived" in (x.formula or "") for x in tbl.cols.values())
  fed = set()
  for tbl in dv.tables.values():
    for x in tbl.cols.values():
      if "lookupOrAddDerived" in (x.formula or ""):
        fed.add(x.formula.split(".lookupOrAddDerived")[0].split()[-1])
  if t.tableId in fed:
    return None
  tgts = [(tt, c) for tt in data_tables(dv) for c in tt.user_cols()
          if tt is not t and not adds(tt)
          and not c.isFormula and not c.formula and c.pure == a.pure]
  if not tgts:
    return None
  tt, c = g.rng.choice(tgts)
  f = "%s.lookupOrAddDerived(%s=$%s).id" % (tt.tableId, c.colId, a.colId)
  if g.rng.random() < 0.25:
    # ... and then fails: the engine takes the record back that the failed evaluation added
    f = "x = " + f + "\nreturn x // 0"
  return [["AddColumn", t.tableId, g.new_col_id("t"),
           # recalcWhen: 0 = DEFAULT (new records / recalcDeps), 1 = NEVER, 2 = MANUAL_UPDATES
           {"type": "Int", "isFormula": False, "formula": f, "recalcWhen": g.rng.choice([1, 1, 2, 0])}]]


def op_ref_trigger(g, dv, protected):
  """Give an existing Ref/RefList data column a trigger formula (a default-value formula): the
  column still holds stored references, which every clean-up must keep treating as data."""
  cands = [(t, c) for t in data_tables(dv) for c in t.user_cols()
           if c.is_data and not c.formula and c.pure in ("Ref", "RefList")
           and not c.reverseCol and not c.summarySourceCol]
  if not cands:
    return None
  t, c = g.rng.choice(cands)
  return [["ModifyColumn", t.tableId, c.colId, {"formula": g.rng.choice(["value", "None", "$%s" % c.colId])}],
          ["UpdateRecord", "_grist_Tables_column", c.ref, {"recalcWhen": g.rng.choice([0, 1, 2])}]]


def op_error_trigger(g, dv, protected):
  """A data column whose trigger formula raises: new records get an error value stored in a data
  column (it records what the cell held before, which for most types is None)."""
  ts = [t for t in data_tables(dv) if len(t.user_cols()) < g.max_cols]
  if not ts:
    return None
  t = g.rng.choice(ts)
  return [["AddColumn", t.tableId, g.new_col_id("t"),
           {"type": g.rng.choice(["Any", "Date", "ChoiceList", "Text", "Int", "Numeric"]), "isFormula": False,
            "formula": g.rng.choice(["1 / 0", "UPPER(value) + 1", "rec.no_such_column", "int('x')"]),
            "recalcWhen": 0}]]


def op_add_field(g, dv, protected):
  """Show one more column of a section's table in that section (what dragging a column into a
  widget does) -- including the `group` column of a summary table, which no widget shows by
  itself."""
  secs = [(r, rec) for r, rec in dv.records("_grist_Views_section") if rec.get("tableRef") in dv.table_by_ref]
  if not secs:
    return None
  sid, sec = g.rng.choice(secs)
  t = dv.table_by_ref[sec["tableRef"]]
  shown = set(rec["colRef"] for _r, rec in dv.records("_grist_Views_section_field") if rec["parentId"] == sid)
  cands = [c for c in t.cols.values() if c.ref not in shown and c.colId != "manualSort"
           and not c.colId.startswith("gristHelper_")]
  if not cands:
    return None
  groups = [c for c in cands if t.is_summary and c.colId == "group"]
  c = g.rng.choice(groups) if groups and g.rng.random() < 0.6 else g.rng.choice(cands)
  return [["AddRecord", "_grist_Views_section_field", None, {"parentId": sid, "colRef": c.ref}]]


def op_retype_and_rename(g, dv, protected):
  """One user-action group that changes a column's type and renames it (two actions, or one
  update of its metadata record): what is pending for the column under its old name has to follow
  it to the new one."""
  cands = [(t, c) for t in data_tables(dv) for c in t.user_cols()
           if (t.tableId, c.colId) not in protected and not c.reverseCol and not c.summarySourceCol
           and not c.is_empty and c.pure in ("Any", "Int", "Numeric", "Text")]
  legacy = fx.used_in_sort_by(dv)
  cands = [(t, c) for (t, c) in cands if (t.tableId, c.colId) not in legacy]
  if not cands:
    return None
  t, c = g.rng.choice(cands)
  new_type = g.rng.choice([x for x in ("Text", "Int", "Numeric", "Any") if x != c.pure])
  new_id = g.new_col_id("r")
  if g.rng.random() < 0.4:
    return [["UpdateRecord", "_grist_Tables_column", c.ref, {"type": new_type, "colId": new_id}]]
  return [["ModifyColumn", t.tableId, c.colId, {"type": new_type}],
          ["RenameColumn", t.tableId, c.colId, new_id]]


def op_add_filter(g, dv, protected):
  """A saved column filter on a widget (a _grist_Filters record naming the section and the column)."""
  secs = [(r, rec) for r, rec in dv.records("_grist_Views_section") if rec.get("tableRef") in dv.table_by_ref]
  if not secs:
    return None
  sid, sec = g.rng.choice(secs)
  t = dv.table_by_ref[sec["tableRef"]]
  cols = [c for c in t.cols.values() if c.colId != "manualSort" and not c.colId.startswith("gristHelper_")]
  have = set((rec["viewSectionRef"], rec["colRef"]) for _r, rec in dv.records("_grist_Filters"))
  cols = [c for c in cols if (sid, c.ref) not in have]
  if not cols:
    return None
  c = g.rng.choice(cols)
  return [["AddRecord", "_grist_Filters", None, {"viewSectionRef": sid, "colRef": c.ref,
                                                 "filter": json.dumps({"included": [g.rng.choice(["a", 1, ""])]})}]]


def op_link_sections(g, dv, protected):
  """Link one widget to another through columns (linkSrcSectionRef / linkSrcColRef / linkTargetColRef)."""
  secs = [(r, rec) for r, rec in dv.records("_grist_Views_section")
          if rec.get("tableRef") in dv.table_by_ref and rec.get("parentId")]
  if len(secs) < 2:
    return None
  (a, ra), (b, rb) = g.rng.sample(secs, 2)
  ta, tb = dv.table_by_ref[ra["tableRef"]], dv.table_by_ref[rb["tableRef"]]
  ca = [c for c in ta.user_cols()]
  cb = [c for c in tb.user_cols()]
  upd = {"linkSrcSectionRef": a,
         "linkSrcColRef": g.rng.choice(ca).ref if ca and g.rng.random() < 0.7 else 0,
         "linkTargetColRef": g.rng.choice(cb).ref if cb and g.rng.random() < 0.7 else 0}
  return [["UpdateRecord", "_grist_Views_section", b, upd]]


OPS = {
  "add_filter": op_add_filter,
  "link_sections": op_link_sections,
  "retype_and_rename": op_retype_and_rename,
  "add_field": op_add_field,
  "error_trigger": op_error_trigger,
  "ref_trigger": op_ref_trigger,
  "derived_trigger": op_derived_trigger,
  "add_records": op_add_records,
  "update_records": op_update_records,
  "remove_records": op_remove_records,
  "add_table": op_add_table,
  "add_data_column": op_add_data_column,
  "add_formula_column": op_add_formula_column,
  "remove_column": op_remove_column,
  "rename_column": op_rename_column,
  "rename_table": op_rename_table,
  "remove_table": op_remove_table,
  "modify_type": op_modify_type,
  "modify_formula": op_modify_formula,
  "toggle_formula": op_toggle_formula,
  "add_view_section": op_add_view_section,
  "add_summary": op_add_summary,
  "update_summary": op_update_summary,
  "detach_summary": op_detach_summary,
  "add_summary_formula": op_add_summary_formula,
  "remove_view_things": op_remove_view_things,
  "add_view": op_add_view,
  "set_sort": op_set_sort,
  "page_indent": op_page_indent,
  "add_reverse": op_add_reverse,
  "display_formula": op_display_formula,
  "add_rule": op_add_rule,
  "duplicate_table": op_duplicate_table,
  "trigger_column": op_trigger_column,
}

DEFAULT_WEIGHTS = {
  "add_records": 10, "update_records": 14, "remove_records": 6,
  "add_table": 3, "add_data_column": 5, "add_formula_column": 8,
  "remove_column": 3, "rename_column": 3, "rename_table": 2, "remove_table": 1,
  "modify_type": 3, "modify_formula": 3, "toggle_formula": 2,
  "add_view_section": 1, "add_summary": 3, "update_summary": 2, "detach_summary": 1,
  "add_summary_formula": 1, "remove_view_things": 1, "add_view": 1, "page_indent": 1, "set_sort": 1,
  "add_reverse": 1, "display_formula": 1, "add_rule": 1, "duplicate_table": 1,
  "trigger_column": 1, "derived_trigger": 0, "ref_trigger": 0, "error_trigger": 0, "add_field": 0,
  "retype_and_rename": 1, "add_filter": 0, "link_sections": 0,
}


def swarm_weights(rng, base=None, keep=None, p_off=0.35):
  """Swarm configuration: each op class switched off with probability p_off (except `keep`),
  remaining weights jittered."""
  base = dict(base or DEFAULT_WEIGHTS)
  keep = set(keep or ("add_records", "update_records", "add_table"))
  out = {}
  for k in sorted(base):
    w = base[k]
    if w <= 0:
      continue
    if k not in keep and rng.random() < p_off:
      continue
    out[k] = w * rng.choice([0.5, 1, 1, 2])
  return out


def gen_user_actions(g, dv, weights, protected=None, tries=12):
  """One user-action group from a weighted random op. Returns (op_name, actions) or (None, None)."""
  if protected is None:
    protected = fx.used_as_index(dv)
  names = sorted(weights)
  ws = [weights[n] for n in names]
  for _ in range(tries):
    name = g.rng.choices(names, ws)[0]
    acts = OPS[name](g, dv, protected)
    if acts:
      return name, acts
  return None, None


MIX_SUMMARY_OPS = not os.environ.get("GSIM_NO_MIX_SUMMARY_OPS")
RECORD_OPS = {"add_records", "update_records", "remove_records"}
ALONE_OPS = {"add_field", "display_formula", "set_sort", "add_filter", "link_sections"}
SUMMARY_OPS = {"add_summary", "update_summary", "detach_summary", "add_summary_formula"}


def tables_of(dv, actions):
  """Table ids (of user tables, as named in dv) that the given user actions touch."""
  out = set()
  for a in actions:
    name = a[0]
    if name == "CreateViewSection":
      t = dv.table_by_ref.get(a[1])
      if t is not None:
        out.add(t.tableId)
      continue
    if name in ("UpdateSummaryViewSection", "DetachSummaryViewSection"):
      for r, rec in dv.records("_grist_Views_section"):
        if r == a[1]:
          st = dv.table_by_ref.get(rec["tableRef"])
          if st is not None:
            out.add(st.tableId)
            src = dv.table_by_ref.get(st.summarySource)
            if src is not None:
              out.add(src.tableId)
      continue
    if len(a) > 1 and isinstance(a[1], str):
      if a[1] in dv.tables:
        out.add(a[1])
        t = dv.tables[a[1]]
        if t.is_summary:
          src = dv.table_by_ref.get(t.summarySource)
          if src is not None:
            out.add(src.tableId)
      elif a[1] == "_grist_Tables_column" and len(a) > 2:
        rows = [x for x in (a[2] if isinstance(a[2], list) else [a[2]]) if isinstance(x, int)]
        for r in rows:
          c = dv.col_by_ref.get(r)
          if c is not None:
            out.add(c.table.tableId)
      elif a[1] == "_grist_Tables" and len(a) > 2:
        rows = [x for x in (a[2] if isinstance(a[2], list) else [a[2]]) if isinstance(x, int)]
        for r in rows:
          t = dv.table_by_ref.get(r)
          if t is not None:
            out.add(t.tableId)
    # formulas may read other tables: those become "read" tables, handled via `protected`
  return out


def protect_from_actions(dv, actions, protected):
  """Extend `protected` with the key/sort/group-by columns that the generated actions start using,
  so that later groups of the same bundle keep D0 (they are generated against the same Sigma)."""
  for a in actions:
    if a[0] in ("AddColumn", "ModifyColumn") and isinstance(a[3], dict) and a[3].get("formula"):
      tree = fx.parse(a[3]["formula"])
      if tree is None:
        continue
      for lk in fx.find_lookups(tree):
        for k in lk.keys:
          protected.add((lk.table, k))
        for nm, _d in fx._sort_names(lk.order_by) + fx._sort_names(lk.sort_by):
          protected.add((lk.table, nm))
      for p in fx.find_prevnext(tree):
        gb = p.group_by
        if isinstance(gb, str):
          gb = (gb,)
        for x in (gb or ()):
          if isinstance(x, str):
            protected.add((a[1], x))
        for nm, _d in fx._sort_names(p.order_by):
          protected.add((a[1], nm))
    elif a[0] in ("CreateViewSection", "UpdateSummaryViewSection"):
      refs = a[4] if a[0] == "CreateViewSection" else a[2]
      for r in (refs or ()):
        c = dv.col_by_ref.get(r)
        if c is not None:
          protected.add((c.table.tableId, c.colId))


def gen_bundle(g, dv, weights, width=None):
  """A bundle of 1..width user-action groups, all generated against the same Sigma. To stay inside
  D0 within the bundle: columns that an earlier group starts using as key/sort/group-by become
  protected for later groups; a table touched by a schema op is not used by later groups (its
  names may be stale); summary ops only go on tables no other group of the bundle touches."""
  protected = fx.used_as_index(dv)
  width = width or g.rng.choice([1, 1, 1, 2, 3])
  names, actions = [], []
  schema_touched, all_touched = set(), set()
  for _ in range(width):
    for _try in range(4):
      n, a = gen_user_actions(g, dv, weights, protected)
      if not a:
        break
      ts = tables_of(dv, a)
      if ts & schema_touched:
        continue
      if names and (n in ALONE_OPS or any(nm in ALONE_OPS for nm in names)):
        # raw metadata records naming rows by id: valid only against the state they were made for
        continue
      if not g.cfg.get("mix_summary_ops", MIX_SUMMARY_OPS) and names and (
          n in SUMMARY_OPS or any(nm in SUMMARY_OPS for nm in names)):
        # (off by default) summary (re)grouping shares a bundle with nothing else
        continue
      if n in SUMMARY_OPS and ts & all_touched:
        continue
      if n not in RECORD_OPS and n not in SUMMARY_OPS and any(
          nm in SUMMARY_OPS for nm in names) and ts & all_touched:
        continue
      names.append(n)
      actions.extend(a)
      all_touched |= ts
      if n not in RECORD_OPS:
        schema_touched |= ts
      if n in SUMMARY_OPS:
        schema_touched |= ts
      protect_from_actions(dv, a, protected)
      break
  return names, actions
