"""
SimStore: the durable replica. An independent doc-action interpreter over
{table: {"cols": {col_id: type}, "order": [col ids], "rows": {row_id: {col_id: cell}}}}
that applies `stored` doc actions the way DocStorage does: cells are kept in their encoded form,
missing cells take the JS-side default of the column type (read from app/common/gristTypes.ts at
start-up, not from Python), and an action that does not apply raises StoreError ("no stored
action describes a change the engine did not make").
"""
import os
import re
import copy

from . import boot


class StoreError(Exception):
  pass


_js_defaults = None

def js_defaults():
  """Parse `_defaultValues` out of app/common/gristTypes.ts."""
  global _js_defaults
  if _js_defaults is not None:
    return _js_defaults
  path = os.path.join(boot.REPO_ROOT, "app", "common", "gristTypes.ts")
  out = {}
  try:
    text = open(path).read()
    m = re.search(r"_defaultValues[^=]*=\s*\{(.*?)\n\};", text, re.S)
    body = m.group(1)
    for name, val in re.findall(r"^\s*(\w+):\s*\[([^,]+),", body, re.M):
      val = val.strip()
      if val == "null":
        out[name] = None
      elif val == "false":
        out[name] = False
      elif val == "true":
        out[name] = True
      elif val in ('""', "''"):
        out[name] = ""
      elif val == "Number.POSITIVE_INFINITY":
        out[name] = float("inf")
      else:
        out[name] = float(val) if "." in val else int(val)
  except Exception:       # pylint: disable=broad-except
    out = {}
  if not out:
    # The file moved or changed shape: fall back to the documented table (same content).
    out = {"Any": None, "Attachments": None, "Blob": None, "Bool": False, "Choice": "",
           "ChoiceList": None, "Date": None, "DateTime": None, "Id": 0, "Int": 0,
           "ManualSortPos": float("inf"), "Numeric": 0, "PositionNumber": float("inf"),
           "Ref": 0, "RefList": None, "Text": ""}
  _js_defaults = out
  return out


def default_for(col_type):
  pure = (col_type or "Any").split(":", 1)[0]
  d = js_defaults()
  return d.get(pure, d.get("Any"))


_INT_TYPES = ("Int", "Ref", "Id")
_REAL_TYPES = ("Numeric", "ManualSortPos", "PositionNumber", "Date", "DateTime")

def _affinity(col_type, v):
  """SQLite column affinity as DocStorage declares it: a lossless REAL stored into an INTEGER
  column comes back as an integer, and an integer stored into a REAL/NUMERIC column of a Grist
  float type is served as a float. (The engine reports a Numeric->Int conversion of 1.0 to 1 as
  no change, relying on exactly this; which Python number type Node serves is outside C02/C07.)"""
  if type(v) is float and (col_type or "").split(":", 1)[0] in _INT_TYPES and v.is_integer():
    return int(v)
  if type(v) is int and (col_type or "").split(":", 1)[0] in _REAL_TYPES:
    return float(v)
  return v


class SimStore(object):
  def __init__(self):
    self.tables = {}
    self.applied = 0

  def clone(self):
    s = SimStore()
    s.tables = copy.deepcopy(self.tables)
    s.applied = self.applied
    return s

  # -- application ------------------------------------------------------------------------------
  def apply_all(self, doc_actions):
    for a in doc_actions:
      self.apply(a)

  def apply(self, a):
    name = a[0]
    fn = getattr(self, "_do_" + name, None)
    if fn is None:
      raise StoreError("unknown doc action %s" % name)
    fn(*a[1:])
    self.applied += 1

  def _table(self, tid):
    t = self.tables.get(tid)
    if t is None:
      raise StoreError("action on unknown table %s" % tid)
    return t

  def _do_AddTable(self, tid, columns):
    if tid in self.tables:
      raise StoreError("AddTable: %s exists" % tid)
    t = {"cols": {}, "rows": {}}
    for c in columns:
      t["cols"][c["id"]] = c.get("type", "Any")
    self.tables[tid] = t

  def _do_RemoveTable(self, tid):
    self._table(tid)
    del self.tables[tid]

  def _do_RenameTable(self, old, new):
    t = self._table(old)
    if new in self.tables:
      raise StoreError("RenameTable: %s exists" % new)
    del self.tables[old]
    self.tables[new] = t

  def _do_AddColumn(self, tid, cid, info):
    t = self._table(tid)
    if cid in t["cols"]:
      raise StoreError("AddColumn: %s.%s exists" % (tid, cid))
    ctype = info.get("type", "Any")
    t["cols"][cid] = ctype
    d = default_for(ctype)
    for row in t["rows"].values():
      row[cid] = d

  def _do_RemoveColumn(self, tid, cid):
    t = self._table(tid)
    if cid not in t["cols"]:
      raise StoreError("RemoveColumn: %s.%s missing" % (tid, cid))
    del t["cols"][cid]
    for row in t["rows"].values():
      row.pop(cid, None)

  def _do_RenameColumn(self, tid, old, new):
    t = self._table(tid)
    if old not in t["cols"]:
      raise StoreError("RenameColumn: %s.%s missing" % (tid, old))
    if new in t["cols"]:
      raise StoreError("RenameColumn: %s.%s exists" % (tid, new))
    t["cols"][new] = t["cols"].pop(old)
    for row in t["rows"].values():
      row[new] = row.pop(old)

  def _do_ModifyColumn(self, tid, cid, info):
    t = self._table(tid)
    if cid not in t["cols"]:
      raise StoreError("ModifyColumn: %s.%s missing" % (tid, cid))
    if "type" in info:
      t["cols"][cid] = info["type"]      # values are kept (DocStorage._alterColumn)

  def _do_AddRecord(self, tid, rid, values):
    self._do_BulkAddRecord(tid, [rid], {k: [v] for k, v in values.items()})

  def _do_BulkAddRecord(self, tid, rids, values):
    t = self._table(tid)
    for c in values:
      if c not in t["cols"]:
        raise StoreError("BulkAddRecord: unknown column %s.%s" % (tid, c))
    for i, r in enumerate(rids):
      if r is None:
        # `id INTEGER PRIMARY KEY`: SQLite assigns max(id)+1 to a NULL id (old migrations rely
        # on this when they add records)
        r = max(list(t["rows"]) + [0]) + 1
      if not isinstance(r, int) or isinstance(r, bool) or r <= 0:
        raise StoreError("BulkAddRecord: bad row id %r in %s" % (r, tid))
      if r in t["rows"]:
        raise StoreError("BulkAddRecord: row %s exists in %s" % (r, tid))
      row = {c: default_for(ct) for c, ct in t["cols"].items()}
      for c, vals in values.items():
        row[c] = vals[i]
      t["rows"][r] = row

  def _do_RemoveRecord(self, tid, rid):
    self._do_BulkRemoveRecord(tid, [rid])

  def _do_BulkRemoveRecord(self, tid, rids):
    t = self._table(tid)
    for r in rids:
      # DocStorage issues DELETE ... WHERE id IN (...): a missing row is a no-op there, and the
      # engine's own BulkRemoveRecord ignores rows that do not exist.
      t["rows"].pop(r, None)

  def _do_UpdateRecord(self, tid, rid, values):
    self._do_BulkUpdateRecord(tid, [rid], {k: [v] for k, v in values.items()})

  def _do_BulkUpdateRecord(self, tid, rids, values):
    t = self._table(tid)
    for c in values:
      if c not in t["cols"]:
        raise StoreError("BulkUpdateRecord: unknown column %s.%s" % (tid, c))
    for i, r in enumerate(rids):
      row = t["rows"].get(r)
      if row is None:
        raise StoreError("BulkUpdateRecord: row %s missing in %s" % (r, tid))
      for c, vals in values.items():
        row[c] = vals[i]

  def _do_ReplaceTableData(self, tid, rids, values):
    t = self._table(tid)
    t["rows"] = {}
    self._do_BulkAddRecord(tid, rids, values)

  # -- reading ----------------------------------------------------------------------------------
  def table_data(self, tid):
    """The table in the same shape as a fetch_table reply."""
    t = self.tables[tid]
    rids = sorted(t["rows"])
    cols = {c: [_affinity(ct, t["rows"][r][c]) for r in rids]
            for c, ct in t["cols"].items() if c != "id"}
    return ["TableData", tid, rids, cols]

  def snapshot(self):
    return {tid: self.table_data(tid) for tid in self.tables}
