"""
CLI: `bin/check <PROPERTY_ID> [--tier quick|thorough] [--replay FILE] [--runs N] [--seed S]`.

Exit 0: the property held on everything explored (KNOWN-FINDING lines may be printed).
Exit 1: `VIOLATION property=<id> replay=<path>` printed for a violation not listed as a known finding.
Exit 2: harness problem (worker crash, nondeterministic replay) -- never reported as a pass.
"""
import argparse
import json
import os
import subprocess
import sys
import time

from . import boot


def _src_digest():
  import hashlib
  h = hashlib.sha256()
  src = boot.GRIST_SRC
  for name in sorted(os.listdir(src)):
    if name.endswith(".py") and not name.startswith("test_"):
      with open(os.path.join(src, name), "rb") as f:
        h.update(name.encode())
        h.update(f.read())
  return h.hexdigest()[:16]


_STATE = {}


def load_known_findings():
  path = os.path.join(boot.VERIF_DIR, "known_findings.json")
  if not os.path.exists(path):
    return {"findings": [], "fixed": []}
  with open(path) as f:
    return json.load(f)


def write_replay(profile, res, events, note=""):
  d = os.path.join(boot.VERIF_DIR, "replays")
  os.makedirs(d, exist_ok=True)
  v = res["violation"]
  path = os.path.join(d, "%s-%s-%s.json" % (v["prop"], profile.name, res["seed"]))
  with open(path, "w") as f:
    json.dump({
      "property": v["prop"], "oracle": v["oracle"], "profile": profile.name,
      "seed": res["seed"], "run_index": res["run_index"], "cfg": res["cfg"],
      "src_digest": _src_digest(), "hashseed": os.environ.get("PYTHONHASHSEED"),
      "events": events, "observed": v, "note": note,
    }, f, indent=1, default=repr)      # key order inside events is kept: it is part of the input
  return path


def replay_file(path, quiet=False):
  """Replay a file in this process. Returns (violation dict or None, harness_error)."""
  from .profiles import get_profile
  from .run import execute
  with open(path) as f:
    rf = json.load(f)
  profile = get_profile(rf["profile"])
  r = execute(profile, cfg=rf["cfg"], events=rf["events"], time_limit=min(120, profile.run_time_limit))
  if not quiet:
    if r.violation:
      print("replay: %s/%s at event %s: %s" % (r.violation["prop"], r.violation["oracle"],
                                               r.violation["event_index"], r.violation["detail"]))
    elif r.harness_error:
      print("replay: HARNESS error\n%s" % r.harness_error)
    else:
      print("replay: no violation")
  return rf, r


def replay_in_fresh_process(path):
  """Returns the (prop, oracle, event_index) observed by a fresh interpreter, or None."""
  cmd = [sys.executable, os.path.join(boot.VERIF_DIR, "bin", "check"), "--replay", path, "--json"]
  env = dict(os.environ)
  p = subprocess.run(cmd, capture_output=True, text=True, env=env, timeout=300)
  for line in p.stdout.splitlines():
    if line.startswith("REPLAY-JSON "):
      return json.loads(line[len("REPLAY-JSON "):])
  return None


def match_known(findings, prop, violation, events):
  from . import findings as fmod
  for f in findings:
    if f.get("property") != prop:
      continue
    if f.get("oracle") and f["oracle"] != violation["oracle"]:
      continue
    pred = getattr(fmod, f.get("signature", ""), None)
    if pred is not None and pred(events, violation):
      return f
  return None


def main(argv=None):
  ap = argparse.ArgumentParser()
  ap.add_argument("prop", nargs="?")
  ap.add_argument("--tier", default=os.environ.get("VERIF_TIER", "quick"))
  ap.add_argument("--replay")
  ap.add_argument("--json", action="store_true")
  ap.add_argument("--runs", type=int)
  ap.add_argument("--seed", type=int)
  ap.add_argument("--start", type=int, default=0)
  ap.add_argument("--workers", type=int)
  ap.add_argument("--budget", type=float, help="soft wall budget (s) for submitting new runs")
  ap.add_argument("--no-evidence", action="store_true")
  ap.add_argument("--no-minimise", action="store_true")
  ap.add_argument("--profile", help="override profile name (default: the property's profile)")
  ap.add_argument("--keep-going", action="store_true", help="report all violations (triage)")
  ap.add_argument("--digests", help="write {run index: digest of event log + final state} here")
  ap.add_argument("--isolated-run", help="(internal) profile:seed:index:tier:limit, one run in this process")
  ap.add_argument("--events-out", help="(internal) with --isolated-run: log events here before executing them")
  args = ap.parse_args(argv)

  boot.boot()
  from .profiles import get_profile, profile_for_property
  from . import run as runmod

  if args.isolated_run:
    return runmod.isolated_main(args.isolated_run, args.events_out)

  if args.replay:
    rf, r = replay_file(args.replay, quiet=args.json)
    if args.json:
      print("REPLAY-JSON " + json.dumps(r.violation))
    if r.harness_error:
      return 2
    if r.violation:
      print("VIOLATION property=%s replay=%s" % (r.violation["prop"], args.replay))
      return 1
    return 0

  tier = args.tier if args.tier in ("quick", "thorough") else "quick"
  verif_seed = args.seed if args.seed is not None else int(os.environ.get("VERIF_SEED", "0") or 0)
  profile = get_profile(args.profile) if args.profile else profile_for_property(args.prop)
  prop = profile.prop
  t0 = time.time()
  known = load_known_findings()
  findings = [f for f in known.get("findings", []) if f.get("property") == prop]

  # 1. Listed findings: replay each one; still failing -> KNOWN-FINDING line.
  known_lines = []
  for f in findings:
    rp = f.get("replay")
    if not rp:
      continue
    path = os.path.join(boot.VERIF_DIR, rp)
    if not os.path.exists(path):
      continue
    _rf, r = replay_file(path, quiet=True)
    if r.violation and r.violation["prop"] == prop:
      line = "KNOWN-FINDING: property=%s %s" % (prop, f["what"])
      known_lines.append(line)
      print(line)

  # 1b. Regression corpus: minimised histories of defects that were fixed (known_findings.json,
  # "fixed") and of seeded changes that were caught. Each must stay clean; one that fails again is
  # an ordinary violation.
  exit_code = 0
  regress_n = 0
  rdir = os.path.join(boot.VERIF_DIR, "regress")
  for name in sorted(os.listdir(rdir)) if os.path.isdir(rdir) else []:
    if not (name.startswith(prop + "-") and name.endswith(".json")):
      continue
    path = os.path.join(rdir, name)
    _rf, r = replay_file(path, quiet=True)
    regress_n += 1
    _STATE["regress_n"] = regress_n
    if r.harness_error:
      print("HARNESS-ERROR regression history %s\n%s" % (path, r.harness_error))
      exit_code = max(exit_code, 2)
    elif r.violation and r.violation["prop"] == prop:
      print("VIOLATION property=%s replay=%s" % (prop, path))
      print("  oracle=%s (regression history) detail=%s" % (
        r.violation["oracle"], r.violation["detail"][:400]))
      exit_code = max(exit_code, 1)

  # 2. Seeded search.
  n_runs = args.runs or (profile.quick_runs if tier == "quick" else profile.thorough_runs)
  budget = args.budget or (profile.quick_budget if tier == "quick" else profile.thorough_budget)
  results, planned = runmod.run_batch(profile, verif_seed, n_runs, tier, workers=args.workers,
                                      wall_budget=budget, start_index=args.start,
                                      time_limit=profile.run_time_limit)
  if args.digests:
    with open(args.digests, "w") as f:
      json.dump({str(d["run_index"]): d.get("digest") for d in results}, f, sort_keys=True)
  harness = [d for d in results if d.get("harness_error")]
  bad = [d for d in results if d.get("violation")]
  violations_reported = 1 if exit_code == 1 else 0
  known_hits = 0
  reported = []
  seen_sigs = set()
  processed = 0
  for d in bad:
    if processed >= 6 and not args.keep_going:
      break
    v = d["violation"]
    events = d["events"]
    # A violation whose own description already satisfies a listed signature needs no minimising.
    kf0 = match_known(findings, prop, v, events)
    if kf0 is not None and kf0.get("match_raw", True):
      known_hits += 1
      line = "KNOWN-FINDING: property=%s %s" % (prop, kf0["what"])
      if line not in known_lines:
        known_lines.append(line)
        print(line)
      continue
    # confirm, minimise
    processed += 1
    r2 = runmod.execute(profile, cfg=d["cfg"], events=events, time_limit=min(120, profile.run_time_limit))
    witness_only = False
    if not runmod.same_failure(r2.violation, v):
      if not profile.observed_difference_is_witness:
        print("HARNESS-NONDETERMINISM run=%s seed=%s first=%s second=%s" % (
          d["run_index"], d["seed"], v, r2.violation))
        exit_code = max(exit_code, 2)
        continue
      witness_only = True       # C30: the processes of the second execution happened to agree
    if not args.no_minimise and not witness_only:
      events, nrep = runmod.minimise(profile, d["cfg"], events, v,
                                     budget_s=profile.minimise_budget)
      r3 = runmod.execute(profile, cfg=d["cfg"], events=events, time_limit=min(120, profile.run_time_limit))
      if runmod.same_failure(r3.violation, v):
        d = dict(d)
        d["violation"] = r3.violation
        v = r3.violation
    kf = match_known(findings, prop, v, events)
    if kf is not None:
      known_hits += 1
      line = "KNOWN-FINDING: property=%s %s" % (prop, kf["what"])
      if line not in known_lines:
        known_lines.append(line)
        print(line)
      continue
    sig = (v["oracle"], v["detail"][:80])
    path = write_replay(profile, d, events)
    fresh = replay_in_fresh_process(path)
    attempts = 1
    while ((fresh is None or fresh.get("oracle") != v["oracle"])
           and attempts < profile.fresh_replay_attempts):
      # C30 only: what is observed is itself a difference between processes (it depends on memory
      # addresses as well as on the hash seed), so one fresh process may happen to agree.
      fresh = replay_in_fresh_process(path)
      attempts += 1
    if fresh is None or fresh.get("oracle") != v["oracle"]:
      if not profile.observed_difference_is_witness:
        print("HARNESS-NONDETERMINISM fresh-process replay of %s gave %s" % (path, fresh))
        exit_code = max(exit_code, 2)
        continue
      print("NOTE %s: the recorded difference between processes did not recur in %d fresh "
            "replays; the two differing replies are in the replay file" % (path, attempts))
    violations_reported += 1
    reported.append({"run_index": d["run_index"], "seed": d["seed"], "oracle": v["oracle"],
                     "detail": v["detail"][:300], "replay": path, "events": len(events)})
    if sig not in seen_sigs or args.keep_going:
      seen_sigs.add(sig)
      print("VIOLATION property=%s replay=%s" % (prop, path))
      print("  oracle=%s run=%s seed=%s events=%d detail=%s" % (
        v["oracle"], d["run_index"], d["seed"], len(events), v["detail"][:400]))
    exit_code = max(exit_code, 1)
  for d in harness[:5]:
    print("HARNESS-ERROR run=%s seed=%s\n%s" % (d["run_index"], d.get("seed"), d["harness_error"]))
    exit_code = max(exit_code, 2)

  wall = time.time() - t0
  if not args.no_evidence:
    write_evidence(profile, prop, tier, verif_seed, results, planned, wall, violations_reported,
                   known_lines, known_hits, reported, len(bad))
  done = [d for d in results if d["run_index"] >= 0]
  print("%s %s: runs=%d/%d events=%d nontrivial=%d violations=%d known-finding-hits=%d "
        "harness-errors=%d wall=%.1fs" % (
          prop, tier, len(done), n_runs, sum(d.get("n_events", 0) for d in done),
          sum(1 for d in done if d.get("nontrivial")), violations_reported, known_hits,
          len(harness), wall))
  return exit_code


def write_evidence(profile, prop, tier, verif_seed, results, planned, wall, violations,
                   known_lines, known_hits, reported, raw_bad):
  done = [d for d in results if d["run_index"] >= 0]
  counters = {}
  shapes = set()
  for d in done:
    for k, v in d.get("counters", {}).items():
      counters[k] = counters.get(k, 0) + v
    if d.get("nontrivial"):
      shapes.update(d.get("shapes", []))
  samples = []
  for d in done:
    if d.get("events_sample"):
      samples.append({"run_index": d["run_index"], "seed": d["seed"],
                      "events": _truncate_events(d["events_sample"])})
    if len(samples) >= 2:
      break
  if not samples:
    samples = [{"note": "no completed run"}]
  n_events = sum(d.get("n_events", 0) for d in done)
  run_wall = sum(d.get("wall", 0) for d in done)
  ev = {
    "property_id": prop,
    "tier": tier,
    "seed": verif_seed,
    "level": profile.level,
    "coverage": {
      "evaluations": len(done),
      "distinct_nontrivial": len(shapes),
      "rule": profile.rule_text(),
      "samples": samples,
      "planned_runs": planned,
      "completed_runs": len(done),
      "nontrivial_runs": sum(1 for d in done if d.get("nontrivial")),
      "simulated_events": n_events,
      "events_by_kind": {k[3:]: v for k, v in sorted(counters.items()) if k.startswith("ev.")},
      "ops_by_kind": {k[3:]: v for k, v in sorted(counters.items()) if k.startswith("op.")},
      "faults": {k[6:]: v for k, v in sorted(counters.items()) if k.startswith("fault.")},
      "probes": {k[6:]: v for k, v in sorted(counters.items()) if k.startswith("probe.")},
      "oracle_evaluations": {k[7:]: v for k, v in sorted(counters.items())
                             if k.startswith("oracle.")},
      "simulated_clock_seconds": counters.get("clock.seconds", 0),
      "restarts": counters.get("ev.restart", 0),
      "runs_per_hour": int(len(done) / wall * 3600) if wall > 0 else 0,
      "run_cpu_seconds": round(run_wall, 2),
      "domain": profile.domain_text(),
      "components": profile.components_text(),
      "known_findings_reported": known_lines,
      "known_finding_hits_in_search": known_hits,
      "regression_histories_replayed": _STATE.get("regress_n", 0),
      "violating_runs": raw_bad,
      "violations_reported": reported,
      "src_digest": _src_digest(),
      "hashseed": os.environ.get("PYTHONHASHSEED"),
    },
    "assumptions": profile.assumptions(),
    "wall_s": round(wall, 2),
    "violations": violations,
  }
  ev["coverage"].update(profile.extra_coverage(counters))
  d = os.path.join(boot.VERIF_DIR, "evidence")
  os.makedirs(d, exist_ok=True)
  with open(os.path.join(d, "%s.json" % prop), "w") as f:
    json.dump(ev, f, indent=1, sort_keys=True, default=repr)


def _truncate_events(events, n=12):
  out = []
  for e in events[:n]:
    s = json.dumps(e, default=repr)
    out.append(e if len(s) < 600 else {"k": e.get("k"), "truncated": s[:600]})
  if len(events) > n:
    out.append({"more_events": len(events) - n})
  return out
