"""Signature predicates for known findings: fn(minimised_events, violation) -> bool."""
