"""Signature predicates for known findings: fn(minimised_events, violation) -> bool.

A signature identifies a finding by the specific history / fault shape that fails, so that a
different violation of the same property is still reported as a VIOLATION.
"""
import re

SCHEMA_ACTIONS = ("AddColumn", "RemoveColumn", "RenameColumn", "ModifyColumn",
                  "AddTable", "RemoveTable", "RenameTable")


def _fault_site(violation):
  m = re.search(r"injected (\w+)#\d+ in (\w+)", violation.get("detail", ""))
  return (m.group(1), m.group(2)) if m else (None, None)


def c04_fault_inside_schema_doc_action(events, violation):
  """F-i: an exception raised *inside* a schema doc action (after it started mutating, incl. at
  its exit) is answered by restoring the schema copy and rebuilding user code, which re-creates
  the affected Column/Table objects empty; the bundle-level rollback then finds nothing to undo."""
  kind, action = _fault_site(violation)
  return kind in ("F2sch", "F3s", "F3r", "F3x") and action in SCHEMA_ACTIONS


_RECURSIVE_MARKERS = ("x.append(x)", "setdefault('self', d)", "f(f, ")


def c24_recursive_value_encoding_depends_on_stack_depth(events, violation):
  """F-v: a formula returns a self-referential or extremely deep container. encode_object recurses
  until RecursionError and then falls back to repr, so *where* the nesting is cut depends on how
  deep the Python stack already is at the call site: the same cell is encoded to depth N in an
  action bundle and to depth N+1 in fetch_table, and a reopened document re-emits it."""
  if violation.get("oracle") not in ("replica-state", "roundtrip", "reopen-calculate-emits",
                                     "reload-failed", "roundtrip-raised"):
    return False
  last = None
  for ev in events:
    for a in ev.get("a", []) if isinstance(ev.get("a"), list) else []:
      if a[0] == "AddColumn" and isinstance(a[3], dict) and any(
          m in (a[3].get("formula") or "") for m in _RECURSIVE_MARKERS):
        last = a
  detail = violation.get("detail", "")
  return last is not None and ("deep" in detail or "RecursionError" in detail)


SUMMARY_ACTIONS = ("UpdateSummaryViewSection", "DetachSummaryViewSection")


def _bundles(events):
  return [ev for ev in events if isinstance(ev.get("a"), list)]


def _formula_writes(events):
  for ev in _bundles(events):
    for a in ev["a"]:
      if a[0] in ("AddColumn", "ModifyColumn") and isinstance(a[3], dict):
        yield ev, a


def c05_lookup_sort_or_key_column_errors(events, violation):
  """F-c: a column that some lookup formula uses as key or sort column is later given a formula
  (its cells may then be errors) or removed."""
  from . import fx
  used = set()
  for ev in _bundles(events):
    for a in ev["a"]:
      if a[0] in ("AddColumn", "ModifyColumn") and isinstance(a[3], dict) and a[3].get("formula"):
        if (a[1], a[2]) in used and a[0] == "ModifyColumn":
          return True
        tree = fx.parse(a[3]["formula"])
        if tree is not None:
          for lk in fx.find_lookups(tree):
            for k in lk.keys:
              used.add((lk.table, k))
            for nm, _d in fx._sort_names(lk.order_by) + fx._sort_names(lk.sort_by):
              used.add((lk.table, nm))
      elif a[0] == "RemoveColumn" and (a[1], a[2]) in used:
        return True
  return False


def c05_name_error_not_recalculated_when_table_appears(events, violation):
  """F-b: a formula mentions a table id before a table with that id is added."""
  from . import fx
  mentioned = set()
  for ev in _bundles(events):
    for a in ev["a"]:
      if a[0] in ("AddColumn", "ModifyColumn") and isinstance(a[3], dict) and a[3].get("formula"):
        mentioned |= fx.referenced_tables(a[3]["formula"])
      elif a[0] in ("AddTable", "AddEmptyTable", "RenameTable") and "NameError" in violation.get("detail", ""):
        name = a[2] if a[0] == "RenameTable" else a[1]
        if name in mentioned:
          return True
      elif a[0] == "CreateViewSection" and a[4] is not None and "NameError" in violation.get("detail", ""):
        # a summary table comes into being (its id derives from the source's): same thing
        if any("_summary" in m for m in mentioned):
          return True
  return False


def c11_one_action_writes_both_sides_of_a_pair(events, violation):
  """F-q: the last bundle has one record action writing two reference columns of one table."""
  if violation.get("oracle") != "asymmetric":
    return False
  m = re.search(r"pair (\w+)\.(\w+) <-> (\w+)\.(\w+)", violation.get("detail", ""))
  if not m or m.group(1) != m.group(3):
    return False
  c1, c2 = m.group(2), m.group(4)
  for ev in _bundles(events)[-1:]:
    for a in ev["a"]:
      if a[0] in ("UpdateRecord", "BulkUpdateRecord", "AddRecord", "BulkAddRecord") and a[1] == m.group(1) \
          and c1 in a[3] and c2 in a[3]:
        return True
  return False


def c11_link_of_contradicting_columns(events, violation):
  """F-w: the last bundle sets reverseCol on an existing column."""
  if violation.get("oracle") != "asymmetric":
    return False
  for ev in _bundles(events)[-1:]:
    for a in ev["a"]:
      if a[0] in ("ModifyColumn", "UpdateRecord") and isinstance(a[-1], dict) and a[-1].get("reverseCol"):
        return True
  return False


_FUNCTION_NAMES = None

def c16_table_named_like_a_formula_function(events, violation):
  """F-y: some table was renamed to (what sanitises to) the name of a formula function."""
  global _FUNCTION_NAMES
  if _FUNCTION_NAMES is None:
    try:
      import functions
      _FUNCTION_NAMES = set(n for n in dir(functions) if n[:1].isupper())
    except Exception:    # pylint: disable=broad-except
      _FUNCTION_NAMES = {"SUM"}
  for ev in _bundles(events):
    for a in ev["a"]:
      name = None
      if a[0] == "RenameTable":
        name = a[2]
      elif a[0] == "UpdateRecord" and a[1] == "_grist_Tables":
        name = a[3].get("tableId")
      elif a[0] == "UpdateRecord" and a[1] == "_grist_Views_section":
        name = a[3].get("title")
      elif a[0] in ("AddTable", "AddEmptyTable"):
        name = a[1]
      if isinstance(name, str) and name and (name in _FUNCTION_NAMES or
                                             (name[0].upper() + name[1:]) in _FUNCTION_NAMES):
        return True
  return False


def c29_evaluate_formula_on_summary_group(events, violation):
  """F-n: evaluate_formula / get_formula_error on the `group` column of a summary table evaluates
  getSummarySourceGroup with a wrapped record; the wrapper ends up in DocModel._auto_remove_set,
  and the next bundle fails in apply_auto_removes after having applied the user's change."""
  for ev in events:
    if ev.get("k") == "tread" and ev.get("call") in ("evaluate_formula", "get_formula_error") \
        and len(ev.get("args", [])) >= 2 and ev["args"][1] == "group" and "_summary" in str(ev["args"][0]):
      return True
  return False


def c04_fault_in_post_action_phase(events, violation):
  """F-l: Engine.apply_user_actions rolls back only what happens inside its `try` (the user
  actions). A failure while applying the doc actions of the post-action phase (auto-removal of
  empty summary rows / unused helper columns, formula side effects) is not rolled back."""
  return "[post-action phase]" in violation.get("detail", "")


def c04_fault_mid_record_doc_action(events, violation):
  """F-u: BulkUpdateRecord / BulkRemoveRecord / ReplaceTableData append their undo action only
  after mutating the columns, so an exception between two Column.set calls leaves cells changed
  that no undo action describes."""
  kind, action = _fault_site(violation)
  return kind == "F3s" and action in ("BulkUpdateRecord", "BulkRemoveRecord", "ReplaceTableData",
                                      "BulkAddRecord")


def c16_rename_captures_an_undefined_name(events, violation):
  """F-n: the cell was a NameError before the rename (its formula mentions a table id that did not
  exist) and the rename gave some table that id."""
  return (violation.get("oracle") == "rename-changed-value"
          and " was ['E', 'NameError'], after " in violation.get("detail", ""))


def c06_cycle_through_exception_swallowing_formula(events, violation):
  """F-o: the two orders differ in which cells hold CircularRefError, and some formula of the
  history swallows exceptions (IFERROR / ISERROR / ISERR / try-except)."""
  if violation.get("oracle") != "order-state" or "CircularRefError" not in violation.get("detail", ""):
    return False
  for _ev, a in _formula_writes(events):
    f = a[3].get("formula") or ""
    if "IFERROR(" in f or "ISERROR(" in f or "ISERR(" in f or "except" in f:
      return True
  return False


def c05_cell_computed_before_a_record_appears_in_the_same_pass(events, violation):
  """F-p: some formula looks up a summary table (whose rows come into being during
  recalculation), and the incremental engine differs from a fresh one / another order."""
  if violation.get("oracle") not in ("from-scratch", "order-state"):
    return False
  for _ev, a in _formula_writes(events):
    f = a[3].get("formula") or ""
    if "_summary" in f and ".lookup" in f:
      return True
  return False
