"""Signature predicates for known findings: fn(minimised_events, violation) -> bool.

A signature identifies a finding by the specific history / fault shape that fails, so that a
different violation of the same property is still reported as a VIOLATION.
"""
import re

SCHEMA_ACTIONS = ("AddColumn", "RemoveColumn", "RenameColumn", "ModifyColumn",
                  "AddTable", "RemoveTable", "RenameTable")


def _fault_site(violation):
  m = re.search(r"injected (\w+)#\d+ in (\w+)", violation.get("detail", ""))
  return (m.group(1), m.group(2)) if m else (None, None)


def c04_fault_inside_schema_doc_action(events, violation):
  """F-i: an exception raised *inside* a schema doc action (after it started mutating, incl. at
  its exit) is answered by restoring the schema copy and rebuilding user code, which re-creates
  the affected Column/Table objects empty; the bundle-level rollback then finds nothing to undo."""
  kind, action = _fault_site(violation)
  return kind in ("F2sch", "F3s", "F3r", "F3x") and action in SCHEMA_ACTIONS


_RECURSIVE_MARKERS = ("x.append(x)", "setdefault('self', d)", "f(f, ")


def c24_recursive_value_encoding_depends_on_stack_depth(events, violation):
  """F-v: a formula returns a self-referential or extremely deep container. encode_object recurses
  until RecursionError and then falls back to repr, so *where* the nesting is cut depends on how
  deep the Python stack already is at the call site: the same cell is encoded to depth N in an
  action bundle and to depth N+1 in fetch_table, and a reopened document re-emits it."""
  if violation.get("oracle") not in ("replica-state", "roundtrip", "reopen-calculate-emits",
                                     "reload-failed", "roundtrip-raised"):
    return False
  last = None
  for ev in events:
    for a in ev.get("a", []) if isinstance(ev.get("a"), list) else []:
      if a[0] == "AddColumn" and isinstance(a[3], dict) and any(
          m in (a[3].get("formula") or "") for m in _RECURSIVE_MARKERS):
        last = a
  detail = violation.get("detail", "")
  return last is not None and ("deep" in detail or "RecursionError" in detail)


def c04_fault_mid_record_doc_action(events, violation):
  """F-u: BulkUpdateRecord / BulkRemoveRecord / ReplaceTableData append their undo action only
  after mutating the columns, so an exception between two Column.set calls leaves cells changed
  that no undo action describes."""
  kind, action = _fault_site(violation)
  return kind == "F3s" and action in ("BulkUpdateRecord", "BulkRemoveRecord", "ReplaceTableData",
                                      "BulkAddRecord")
