"""Profile registry: one profile per claimed property (plus helper profiles)."""
import importlib

_BY_NAME = {}

def _load():
  if _BY_NAME:
    return
  for mod in ("core", "twins", "sched", "scans", "models", "rules", "migr"):
    try:
      m = importlib.import_module("gsim.profiles." + mod)
    except ModuleNotFoundError as e:
      if e.name != "gsim.profiles." + mod:
        raise
      continue
    for p in getattr(m, "PROFILES", []):
      _BY_NAME[p.name] = p

def get_profile(name):
  _load()
  return _BY_NAME[name]

def profile_for_property(prop):
  _load()
  return _BY_NAME[prop.lower()]

def all_profiles():
  _load()
  return dict(_BY_NAME)
