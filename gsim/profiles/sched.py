"""
Schedule / interleaving / configuration / transport profiles:
C06 (evaluation order), C18 (cycles), C29 (read interleaving), C30 (process configuration),
C24 (transport).
"""
import hashlib
import json
import os
import random
import subprocess
import sys
import tempfile

from .. import eq, gen, fx, boot
from ..docview import DocView
from ..profile import Profile, vio
from ..proc import EngineProc, SandboxDied
from ..sim import Sim, Violation, split_reply, Outcome, StopRun
from .core import HistoryProfile
from .twins import TwinSim, reply_key


# -- the schedule seam ------------------------------------------------------------------------------

def install_permuter(engine, seed, counter=None):
  """Wrap Engine._make_sorted_work_items of this instance: the initial work-item order of every
  update loop becomes a seeded permutation (lookup-map nodes stay at the processing front, which is
  the engine's own documented rule). One child PRNG per call, so the number of calls in one bundle
  does not shift later permutations."""
  orig = engine._make_sorted_work_items
  state = {"n": 0}
  def wrapped(nodes):
    items = orig(nodes)
    state["n"] += 1
    h = hashlib.sha256(("%s|sched|%d" % (seed, state["n"])).encode()).digest()
    rnd = random.Random(int.from_bytes(h[:8], "big"))
    lookups = [w for w in items if w.node.col_id.startswith("#lookup")]
    others = [w for w in items if not w.node.col_id.startswith("#lookup")]
    before = [w.node for w in others]
    rnd.shuffle(others)
    rnd.shuffle(lookups)
    if counter is not None and len(others) > 1:
      counter["perms"] = counter.get("perms", 0) + 1
      if [w.node for w in others] != before:
        counter["perms_changed"] = counter.get("perms_changed", 0) + 1
    return others + lookups      # work items are popped from the end: lookups first
  engine._make_sorted_work_items = wrapped


def canon_summaries(snap):
  """Renumber summary-table rows by their group-by key (summary row ids are allocated by formula
  side effects in evaluation order, so two legal orders may number the same groups differently).
  Ordinary tables are untouched."""
  dv = DocView(snap)
  out = dict(snap)
  for t in dv.summary_tables():
    td = snap.get(t.tableId)
    if td is None:
      continue
    gb = sorted(c.colId for c in t.cols.values() if c.summarySourceCol)
    _x, tid, row_ids, cols = td
    keyed = []
    for i, r in enumerate(row_ids):
      keyed.append((repr(tuple(eq.norm(cols[g][i]) for g in gb)), i))
    keyed.sort()
    new_ids = list(range(1, len(keyed) + 1))
    new_cols = {c: [vals[i] for (_k, i) in keyed] for c, vals in cols.items()}
    out[t.tableId] = ["TableData", tid, new_ids, new_cols]
  return out, set(t.tableId for t in dv.summary_tables())


def atomic_facts(stored, skip_tables):
  """Stored actions as a multiset of per-cell facts (bulk updates split per table/column/row)."""
  facts = {}
  def add(f):
    facts[f] = facts.get(f, 0) + 1
  for a in stored:
    name = a[0]
    tid = a[1] if len(a) > 1 and isinstance(a[1], str) else None
    if tid in skip_tables:
      continue
    if name in ("UpdateRecord", "AddRecord"):
      add((name[:3], tid, a[2]))
      for c, v in a[3].items():
        add(("cell", tid, a[2], c, eq.norm(v)))
    elif name in ("BulkUpdateRecord", "BulkAddRecord"):
      for i, r in enumerate(a[2]):
        add((name[4:7], tid, r))
        for c, vals in a[3].items():
          add(("cell", tid, r, c, eq.norm(vals[i])))
    elif name == "RemoveRecord":
      add(("Rem", tid, a[2]))
    elif name == "BulkRemoveRecord":
      for r in a[2]:
        add(("Rem", tid, r))
    else:
      add(("schema", eq.norm(a)))
  return facts


# -- cycle ops (leave D0 on purpose: $col cycles only, as C18 states) ---------------------------------

def op_cycle_formula(g, dv, protected):
  """Point a formula column at other formula columns of its table (including itself / later ones)
  through $col references only, so that reference cycles appear and disappear."""
  cands = []
  for t in gen.data_tables(dv):
    fcols = [c for c in t.user_cols() if c.isFormula and c.formula and "lookup" not in c.formula
             and (t.tableId, c.colId) not in protected and not c.summarySourceCol]
    if fcols:
      cands.append((t, fcols))
  if not cands:
    return None
  t, fcols = g.rng.choice(cands)
  c = g.rng.choice(fcols)
  pool = [x for x in t.user_cols() if (x.isFormula and x.formula) or x.pure in ("Int", "Numeric")]
  k = g.rng.randint(1, min(2, len(pool)))
  refs = g.rng.sample(pool, k)
  f = " + ".join("($%s or 0)" % x.colId for x in refs) + " + %d" % g.rng.choice([0, 1, 5])
  return [["ModifyColumn", t.tableId, c.colId, {"formula": f}]]


gen.OPS["cycle_formula"] = op_cycle_formula


# -- C06 ------------------------------------------------------------------------------------------

class C06(HistoryProfile):
  prop = "C06"
  name = "c06"
  technique = ("deterministic simulation: twin engines fed the same history, one under seeded "
               "permutations of the update loop's initial work-item order (the schedule seam)")
  max_events = 30
  p_undo = 0.05
  p_redo_after_undo = 0.5

  def base_weights(self):
    w = dict(gen.DEFAULT_WEIGHTS)
    w.update({"add_formula_column": 14, "modify_formula": 5, "update_records": 16, "add_summary": 5,
              "add_summary_formula": 2, "cycle_formula": 3, "modify_type": 3})
    return w

  def config(self, rng, tier):
    cfg = super(C06, self).config(rng, tier)
    cfg["sched_seed"] = rng.getrandbits(48)
    # formulas that swallow exceptions (the engine's own "not computed yet" signal among them) and
    # read on are where the evaluation order can leak into results
    cfg["formula_kinds"] = list(gen.DEFAULT_FORMULA_KINDS) + ["swallow"] * 5
    return cfg

  def new_sim(self, cfg):
    sim = TwinSim(self.prop)
    sim.sched_seed = cfg["sched_seed"]
    sim.sched_counter = {}
    return sim

  def step(self, sim, ev, st):
    k = ev["k"]
    for n in ev.get("ops", ()):
      sim.count("op." + n)
    out = sim.do(ev)
    if k == "open":
      install_permuter(sim.twin.engine, sim.sched_seed, sim.sched_counter)
      return out
    # deliver the same event to the permuted twin
    if k == "bundle":
      rb = sim.twin.apply(ev["a"])
    elif k == "undo":
      if out.ok is None:
        return out
      rb = sim.twin.apply([["ApplyUndoActions", st["twin_log"][-1][1]]])
    elif k == "redo":
      if out.ok is None:
        return out
      rb = sim.twin.apply([["ApplyDocActions", st["twin_redo"][-1][0]]])
    elif k == "tick":
      sim.primary.enter()
      return out
    else:
      raise AssertionError(k)
    sim.primary.enter()
    if rb.ok != out.ok:
      raise vio(sim, "order-outcome", "default order ok=%s (%s), permuted order ok=%s (%s)" % (
        out.ok, out.error, rb.ok, rb.error))
    if not out.ok:
      return out
    sb, ub = split_reply(rb.value)[:2]
    # twin keeps its own log, because summary row ids inside its undo/stored may differ legally
    if k == "bundle":
      del st.setdefault("twin_redo", [])[:]
      st.setdefault("twin_log", []).append((sb, ub))
    elif k == "undo":
      st["twin_redo"].append(st["twin_log"].pop())
    elif k == "redo":
      st["twin_log"].append(st["twin_redo"].pop())
    sa_c, summ = canon_summaries(sim.sigma)
    sb_c, _ = canon_summaries(sim.twin.snapshot())
    sim.primary.enter()
    d = eq.diff(sa_c, sb_c)
    if d:
      raise vio(sim, "order-state", "; ".join(d[:4]) + "  (A=default order, B=permuted order)")
    fa, fb = atomic_facts(out.stored, summ), atomic_facts(sb, summ)
    if fa != fb:
      only_a = [k2 for k2 in fa if fa[k2] != fb.get(k2)]
      only_b = [k2 for k2 in fb if fb[k2] != fa.get(k2)]
      raise vio(sim, "order-stored-multiset", "stored actions differ beyond order: A-only=%r B-only=%r" % (
        only_a[:3], only_b[:3]))
    sim.count("oracle.order")
    if sim.sched_counter.get("perms_changed", 0) > st.get("seen_perm", 0):
      st["seen_perm"] = sim.sched_counter["perms_changed"]
      sim.count("oracle.nontrivial")
      sim.count("probe.permutations_applied")
      sim.shapes.add("%s/%s" % (self.shape(sim), ",".join(ev.get("ops", ()))))
    return out

  def rule_text(self):
    return (super(C06, self).rule_text() + "; here non-trivial additionally requires that the "
            "permuted twin actually evaluated in an order different from the default one")


# -- C18 ------------------------------------------------------------------------------------------

def cycle_oracle(refs, consts, data):
  """refs: {col: [cols it reads]}, consts: {col: int}, data: {col: value} for data columns.
  Returns {col: ('cycle',) | ('error',) | ('value', v)} by graph reachability."""
  cols = list(refs)
  reach = {}
  def reachable(c):
    if c in reach:
      return reach[c]
    seen, stack = set(), list(refs.get(c, ()))
    while stack:
      x = stack.pop()
      if x in seen or x not in refs:
        continue
      seen.add(x)
      stack.extend(refs[x])
    reach[c] = seen
    return seen
  on_cycle = {c for c in cols if c in reachable(c)}
  out = {}
  def value(c):
    if c in data:
      return data[c]
    if c in out:
      return out[c]
    if c in on_cycle:
      out[c] = ("cycle",)
      return out[c]
    if reachable(c) & on_cycle:
      out[c] = ("error",)
      return out[c]
    total = consts[c]
    for r in refs[c]:
      v = value(r)
      v = v[1] if isinstance(v, tuple) else v
      total += (v or 0)
    out[c] = ("value", total)
    return out[c]
  for c in cols:
    value(c)
  return out


class C18(Profile):
  prop = "C18"
  name = "c18"
  technique = ("deterministic simulation: small formula graphs (every reference subset on 3 "
               "columns in the thorough tier, sampled on 4-6) evaluated under seeded permutations of "
               "the work-item order and after incremental edits that create and break cycles")
  quick_runs = 400
  max_events = 14
  cpu_timeout_is_violation = True     # "recalculation terminates"
  run_time_limit = 40                 # CPU seconds; a run of this profile takes well under one

  def config(self, rng, tier):
    return {"max_events": rng.randint(4, self.max_events), "ncols": rng.choice([3, 3, 4, 5, 6]),
            "nrows": rng.randint(1, 3), "sched_seed": rng.getrandbits(48),
            "nsched": 4}

  def new_sim(self, cfg):
    sim = Sim(self.prop)
    sim.cfg = cfg
    return sim

  def init_state(self, sim, cfg):
    return {"refs": {}, "consts": {}, "cfg": cfg}

  def first_events(self, sim, g, cfg):
    n = cfg["ncols"]
    cols = [{"id": "d", "type": "Int", "isFormula": False}]
    names = ["k%d" % i for i in range(n)]
    for i, nm in enumerate(names):
      refs = self._rand_refs(g.rng, names + ["d"])
      cols.append({"id": nm, "type": "Any", "isFormula": True, "formula": self._formula(refs, i)})
    rows = cfg["nrows"]
    return [{"k": "open"},
            {"k": "bundle", "a": [["AddTable", "C", cols],
                                  ["BulkAddRecord", "C", [None] * rows,
                                   {"d": [g.rng.choice([0, 1, 2, 7]) for _ in range(rows)]}]],
             "ops": ["cycle_table"]}]

  @staticmethod
  def _rand_refs(rng, names):
    k = rng.choice([0, 1, 1, 2, 2, 3])
    return sorted(rng.sample(names, min(k, len(names))))

  @staticmethod
  def _formula(refs, const):
    return " + ".join(["($%s or 0)" % r for r in refs] + [str(const)])

  def next_event(self, sim, g, cfg, st, i):
    names = ["k%d" % j for j in range(cfg["ncols"])]
    r = g.rng.random()
    if r < 0.7:
      c = g.rng.choice(names)
      refs = self._rand_refs(g.rng, names + ["d"])
      const = g.rng.choice([0, 1, 2, 10])
      return {"k": "bundle", "a": [["ModifyColumn", "C", c, {"formula": self._formula(refs, const)}]],
              "ops": ["rewire"]}
    if r < 0.85:
      dv = DocView(sim.sigma)
      rows = dv.tables["C"].row_ids if "C" in dv.tables else []
      if rows:
        return {"k": "bundle", "a": [["UpdateRecord", "C", g.rng.choice(rows),
                                      {"d": g.rng.choice([0, 1, 2, 7, 9])}]], "ops": ["data"]}
    if r < 0.93:
      return {"k": "bundle", "a": [["AddRecord", "C", None, {"d": g.rng.choice([0, 3])}]], "ops": ["addrow"]}
    return {"k": "undo"}

  def step(self, sim, ev, st):
    for n in ev.get("ops", ()):
      sim.count("op." + n)
    out = sim.do(ev)
    if ev["k"] == "open":
      return out
    if "cycle_table" in ev.get("ops", ()) and out.ok:
      sim.base = sim.ptr          # the table itself is never undone
    if out.ok is False:
      # Only a request that was valid against the pre-state counts (replays cut by the minimiser
      # may address a table or column that is not there).
      pre = DocView(out.pre) if out.pre is not None else None
      valid = pre is not None and "C" in pre.tables and all(
        (a[0] != "ModifyColumn" or a[2] in pre.tables["C"].cols) for a in ev.get("a", []))
      if valid or ev["k"] in ("undo", "redo"):
        raise vio(sim, "cycle-call-failed", "the call raised: %s" % out.error)
      return out
    self._check_state(sim, sim.sigma, "default order")
    # The same document recalculated from scratch under several permuted schedules.
    src = sim.primary.snapshot(formulas=False)
    for j in range(sim.cfg.get("nsched", 4)):
      proc = EngineProc(sim.peer, name="S%d" % j)
      install_permuter(proc.engine, "%s/%d/%d" % (sim.cfg["sched_seed"], len(sim.events), j))
      proc2, rc = self._load(sim, proc, src)
      if not rc.ok:
        raise vio(sim, "cycle-call-failed", "recalculation under permuted schedule %d raised: %s" % (j, rc.error))
      self._check_state(sim, proc.snapshot(), "permuted schedule %d (from scratch)" % j)
      sim.count("probe.schedules")
    sim.primary.enter()
    sim.count("oracle.cycles")
    return out

  def _load(self, sim, proc, source):
    from ..proc import db_blob
    r = proc.call("load_meta_tables", db_blob(source["_grist_Tables"]),
                  db_blob(source["_grist_Tables_column"]))
    if not r.ok:
      return proc, r
    for tid in r.value:
      if tid in source:
        r2 = proc.call("load_table", tid, db_blob(source[tid]))
        if not r2.ok:
          return proc, r2
    return proc, proc.apply([["Calculate"]])

  def _check_state(self, sim, snap, when):
    dv = DocView(snap)
    t = dv.tables.get("C")
    if t is None:
      return
    refs, consts = {}, {}
    for c in t.cols.values():
      if c.isFormula and c.formula and c.colId.startswith("k"):
        names = sorted(fx.rec_attrs(c.formula))
        refs[c.colId] = names
        tail = c.formula.rsplit("+", 1)[-1].strip() if "+" in c.formula else c.formula.strip()
        consts[c.colId] = int(tail)
    rows = eq.rows_of(snap["C"])
    has_cycle = False
    for r, rec in rows.items():
      d = rec.get("d")
      expect = cycle_oracle(refs, consts, {"d": d if isinstance(d, (int, float)) else 0})
      for c, e in expect.items():
        got = rec.get(c)
        if e[0] == "cycle":
          has_cycle = True
          if not (isinstance(got, eq.Err) and got.cls == "CircularRefError"):
            raise vio(sim, "cycle-cell", "%s: C[%s].%s lies on a cycle but holds %r (refs=%r)" % (
              when, r, c, got, refs))
        elif e[0] == "value":
          if isinstance(got, eq.Err) or eq.norm(got) != eq.norm(e[1]):
            raise vio(sim, "acyclic-cell", "%s: C[%s].%s neither on nor downstream of a cycle: "
                      "expected %r, holds %r (refs=%r consts=%r)" % (when, r, c, e[1], got, refs, consts))
        else:
          if not isinstance(got, eq.Err):
            raise vio(sim, "downstream-cell", "%s: C[%s].%s depends on a cycle but holds the "
                      "plain value %r" % (when, r, c, got))
    sim.count("oracle.nontrivial")
    sim.shapes.add("cyc:" + ";".join("%s<-%s" % (c, ",".join(refs[c])) for c in sorted(refs))
                   + ("/cycle" if has_cycle else "/acyclic"))

  def rule_text(self):
    return ("one case = one seeded run over a table of 3-6 formula columns whose $col references "
            "are rewired at random; after every edit the state is checked under the default order "
            "and under 4 permuted from-scratch schedules; distinct = distinct reference graphs "
            "(adjacency lists) checked, non-trivial = at least one formula column present")

  def domain_text(self):
    return ("cycles through $col references of the same row only (as the property states); "
            "formulas ($a or 0) + ... + const over Int data and other formula columns")


class C18Full(C18):
  """C18 as registered: in the thorough tier, runs 0..511 enumerate every reference graph on 3
  formula columns (each column reads any subset of {k0,k1,k2,d}: 16^3 = 4096 graphs, 8 per run,
  each reached incrementally from the previous one); all other runs are the sampled profile."""
  name = "c18"
  thorough_runs = 512 + 6000

  def config(self, rng, tier):
    cfg = super(C18Full, self).config(rng, tier)
    idx = getattr(self, "current_run_index", None)
    if tier == "thorough" and idx is not None and idx < 512:
      cfg.update({"ncols": 3, "max_events": 8, "graph_base": 8 * idx, "enum": True, "nrows": 1})
    return cfg

  def first_events(self, sim, g, cfg):
    if not cfg.get("enum"):
      return super(C18Full, self).first_events(sim, g, cfg)
    cols = [{"id": "d", "type": "Int", "isFormula": False}]
    for i in range(3):
      cols.append({"id": "k%d" % i, "type": "Any", "isFormula": True, "formula": str(i)})
    return [{"k": "open"},
            {"k": "bundle", "a": [["AddTable", "C", cols], ["AddRecord", "C", None, {"d": 2}]],
             "ops": ["cycle_table"]}]

  def next_event(self, sim, g, cfg, st, i):
    if not cfg.get("enum"):
      return super(C18Full, self).next_event(sim, g, cfg, st, i)
    base = cfg["graph_base"] + i
    if base >= 4096:
      return None
    names = ["k0", "k1", "k2", "d"]
    acts = []
    for ci in range(3):
      mask = (base >> (4 * ci)) & 15
      refs = [names[b] for b in range(4) if mask & (1 << b)]
      acts.append(["ModifyColumn", "C", "k%d" % ci, {"formula": self._formula(refs, ci + 1)}])
    sim.count("probe.enumerated_3col_graphs")
    return {"k": "bundle", "a": acts, "ops": ["graph"]}

  def extra_coverage(self, counters):
    n = counters.get("probe.enumerated_3col_graphs", 0)
    return {"three_column_graphs_enumerated": n, "three_column_graphs_total": 4096,
            "exhaustive": False,
            "exhaustive_note": ("all 4096 three-column graphs enumerated in this run" if n >= 4096
                                else "sampled only (enumeration runs in the thorough tier)")}


# -- C29 ------------------------------------------------------------------------------------------

READ_CALLS = ("fetch_table", "fetch_table_query", "fetch_meta_tables", "get_formula_error",
              "evaluate_formula", "get_formula_prompt", "autocomplete", "find_col_from_values",
              "fetch_table_schema")


def gen_read(g, dv, include_summary_group=True):
  rng = g.rng
  ts = dv.user_tables(include_summary=True)
  kind = rng.choice(READ_CALLS)
  adders = [(t2, c2) for t2 in ts for c2 in t2.cols.values()
            if c2.formula and "lookupOrAddDerived" in c2.formula and not c2.isFormula and t2.row_ids]
  if adders and rng.random() < 0.3:
    # a trigger formula that would add a record if it were evaluated now
    t2, c2 = rng.choice(adders)
    return rng.choice(["get_formula_error", "evaluate_formula"]), [t2.tableId, c2.colId, rng.choice(t2.row_ids)]
  if not ts and kind not in ("fetch_meta_tables", "fetch_table_schema"):
    kind = "fetch_meta_tables"
  if kind == "fetch_meta_tables":
    return kind, [rng.random() < 0.5]
  if kind == "fetch_table_schema":
    return kind, []
  t = rng.choice(ts)
  cols = [c for c in t.cols.values()]
  if kind == "fetch_table":
    return kind, [t.tableId, rng.random() < 0.7]
  if kind == "fetch_table_query":
    c = rng.choice(cols)
    vals = list(dv.cells(t.tableId, c.colId).values()) if c.colId in dv.snap[t.tableId][3] else []
    q = rng.sample(vals, min(len(vals), 2)) + [rng.choice([0, "a", None, ["L", "a"]])]
    return "fetch_table", [t.tableId, True, {c.colId: q}]
  rows = t.row_ids
  fcols = [c for c in cols if c.formula]
  if kind in ("get_formula_error", "evaluate_formula"):
    if not fcols or not rows:
      return "fetch_table", [t.tableId, True]
    if not include_summary_group:
      fcols = [c for c in fcols if not (t.is_summary and c.colId == "group")] or fcols
    c = rng.choice(fcols)
    if not include_summary_group and t.is_summary and c.colId == "group":
      return "fetch_table", [t.tableId, True]
    return kind, [t.tableId, c.colId, rng.choice(rows)]
  if kind == "get_formula_prompt":
    c = rng.choice(cols)
    return kind, [t.tableId, c.colId]
  if kind == "autocomplete":
    c = rng.choice(cols)
    txt = rng.choice(["$", "$" + c.colId[:1], t.tableId + ".", t.tableId + ".lookupRecords(",
                      "rec.", "$%s." % c.colId, "SU", "user.", "value"])
    row = rng.choice(rows) if rows and rng.random() < 0.7 else "new"
    if row == "new" and not rows:
      return "fetch_table", [t.tableId, True]
    return kind, [txt, t.tableId, c.colId, row, _USER]
  if kind == "find_col_from_values":
    c = rng.choice(cols)
    vals = list(dv.cells(t.tableId, c.colId).values()) if c.colId in dv.snap[t.tableId][3] else []
    vals = [v for v in vals if isinstance(v, (int, float, str))][:4] + ["a", 1]
    return kind, [vals, rng.choice([0, 1, 3]), rng.choice([None, t.tableId])]
  return "fetch_meta_tables", [True]


_USER = {"Name": "U", "Email": "u@example.com", "Access": "owners", "Origin": None, "LinkKey": {},
         "UserID": 1, "UserRef": "u1", "SessionID": "s1", "IsLoggedIn": True, "ShareRef": None,
         "Type": "login"}


class C29(HistoryProfile):
  prop = "C29"
  name = "c29"
  technique = ("deterministic simulation: twin engines fed the same bundles, one with seeded "
               "read-only RPCs interleaved between the writes")
  max_events = 26
  p_undo = 0.04
  p_redo_after_undo = 0.5
  include_summary_group = False

  def base_weights(self):
    w = dict(gen.DEFAULT_WEIGHTS)
    w.update({"add_formula_column": 10, "add_summary": 5, "add_summary_formula": 2, "trigger_column": 3,
              "display_formula": 2, "derived_trigger": 14, "add_table": 6})
    return w

  def new_sim(self, cfg):
    return TwinSim(self.prop)

  def config(self, rng, tier):
    cfg = super(C29, self).config(rng, tier)
    cfg["p_read"] = rng.choice([0.3, 0.5, 0.7])
    # the `group` column of summary tables is evaluated too (it used to poison the auto-remove set:
    # fixed finding F-n)
    cfg["include_summary_group"] = True
    return cfg

  def next_event(self, sim, g, cfg, st, i):
    if g.rng.random() < cfg["p_read"]:
      dv = DocView(sim.sigma)
      call, args = gen_read(g, dv, cfg.get("include_summary_group", self.include_summary_group))
      return {"k": "tread", "call": call, "args": args, "calc": g.rng.random() < 0.3}
    ev = super(C29, self).next_event(sim, g, cfg, st, i)
    if ev["k"] not in ("bundle",):
      return Profile.next_event(self, sim, g, cfg, st, i)
    return ev

  def step(self, sim, ev, st):
    k = ev["k"]
    for n in ev.get("ops", ()):
      sim.count("op." + n)
    if k == "open":
      return sim.do(ev)
    if k == "bundle":
      out = sim.do(ev)
      rb = sim.twin.apply(ev["a"])
      sim.primary.enter()
      if rb.ok != out.ok:
        raise vio(sim, "read-free-twin", "after interleaved reads a bundle %s on the read twin but %s "
                  "on the read-free twin: %s / %s" % ("succeeded" if rb.ok else "failed",
                                                      "succeeded" if out.ok else "failed", rb.error, out.error))
      if out.ok and reply_key(out.reply) != reply_key(rb.value):
        raise vio(sim, "read-free-twin", "reply differs from the read-free twin: A.stored=%s B.stored=%s" % (
          json.dumps(out.stored, default=repr)[:300],
          json.dumps(split_reply(rb.value)[0], default=repr)[:300]))
      return out
    if k == "tread":
      sim.events.append(ev)
      sim.count("ev.read")
      sim.count("probe.read_" + ev["call"])
      B = sim.twin
      pre = B.snapshot()
      r = B.call(ev["call"], *ev["args"])
      post = B.snapshot()
      d = eq.diff(pre, post)
      if d:
        raise vio(sim, "read-changed-state", "%s%r changed the document: %s" % (
          ev["call"], tuple(ev["args"])[:3], "; ".join(d[:4])))
      if not r.ok:
        sim.count("probe.read_raised")
      if ev.get("calc"):
        rc = B.apply([["Calculate"]])
        if not rc.ok:
          raise vio(sim, "calculate-after-read", "Calculate after %s raised %s" % (ev["call"], rc.error))
        stored = split_reply(rc.value)[0]
        if stored:
          raise vio(sim, "calculate-after-read", "Calculate after %s emitted %s" % (
            ev["call"], json.dumps(stored, default=repr)[:300]))
      sim.primary.enter()
      sim.count("oracle.read")
      sim.count("oracle.nontrivial")
      sim.shapes.add("%s/%s" % (self.shape(sim), ev["call"]))
      return None
    raise AssertionError(k)


# -- C30 ------------------------------------------------------------------------------------------

def reply_digest(value):
  stored, undo, direct, calc, ret = split_reply(value)
  s = json.dumps([stored, undo, direct, ret], sort_keys=True, default=repr)
  return hashlib.sha256(s.encode()).hexdigest()[:16]


def snapshot_digest(snap):
  s = json.dumps(snap, sort_keys=True, default=repr)
  return hashlib.sha256(s.encode()).hexdigest()[:16]


class C30(HistoryProfile):
  prop = "C30"
  name = "c30"
  technique = ("deterministic simulation: the recorded event list of a seeded run is replayed in "
               "fresh interpreters under other PYTHONHASHSEED values; per-reply and final-state "
               "digests must be identical")
  quick_runs = 100
  thorough_runs = 1500
  fresh_replay_attempts = 6
  observed_difference_is_witness = True
  max_events = 26
  p_undo = 0.08
  p_redo_after_undo = 0.5
  p_restart = 0.03
  hashseeds = ("1", "2718281")

  def base_weights(self):
    w = dict(gen.DEFAULT_WEIGHTS)
    w.update({"add_summary": 8, "update_summary": 3, "remove_column": 8, "remove_table": 2,
              "add_formula_column": 10, "remove_view_things": 3, "set_sort": 8, "add_view_section": 6,
              "rename_column": 8, "add_view": 3, "add_rule": 10, "display_formula": 6,
              "add_data_column": 8})
    return w

  def config(self, rng, tier):
    cfg = super(C30, self).config(rng, tier)
    cfg["fanout_start"] = rng.random() < 0.35
    return cfg

  def first_events(self, sim, g, cfg):
    yield {"k": "open"}
    if not cfg.get("fanout_start"):
      return
    # A document in which one user action fans out over several records of the same kind (the
    # places where an engine iterates over a set of records): a column with several rule helper
    # columns, a column shown in several sorted sections and grouped by several summary tables.
    t = g.new_table_id()
    a, b, c = g.new_col_id(), g.new_col_id(), g.new_col_id()
    yield {"k": "bundle", "ops": ["add_table"], "a": [
      ["AddTable", t, [{"id": a, "type": "Int", "isFormula": False}, {"id": b, "type": "Text", "isFormula": False},
                       {"id": c, "type": "Int", "isFormula": False}]],
      ["BulkAddRecord", t, [None] * 3, {a: [1, 2, 1], b: ["x", "y", "x"], c: [5, 6, 7]}]]}
    for _ in range(g.rng.randint(2, 4)):
      # (on a column that nothing else pins down, so that the history may remove it)
      yield {"k": "bundle", "ops": ["add_rule"], "a": [["AddEmptyRule", t, 0, DocView(sim.sigma).tables[t].cols[c].ref]]}
    dv = DocView(sim.sigma)
    ta = dv.tables[t]
    for gb in ([ta.cols[a].ref], [ta.cols[a].ref, ta.cols[b].ref]):
      yield {"k": "bundle", "ops": ["add_summary"], "a": [["CreateViewSection", ta.ref, 0, "record", sorted(gb), None]]}
    dv = DocView(sim.sigma)
    secs = [r for r, rec in dv.records("_grist_Views_section") if rec.get("tableRef") == ta.ref][:3]
    for r in secs:
      yield {"k": "bundle", "ops": ["set_sort"], "a": [
        ["UpdateRecord", "_grist_Views_section", r, {"sortColRefs": json.dumps([ta.cols[c].ref])}]]}

  def step(self, sim, ev, st):
    out = sim.do(ev)
    for n in ev.get("ops", ()):
      sim.count("op." + n)
    dig = st.setdefault("digests", [])
    if out.ok and out.reply is not None and ev["k"] in ("bundle", "undo", "redo", "open", "restart"):
      dig.append(reply_digest(out.reply))
    else:
      dig.append("ok=%r" % (out.ok,))
    return out

  def finish(self, sim, st):
    st["digests"].append(snapshot_digest(sim.sigma))
    if os.environ.get("GSIM_C30_CHILD"):
      sim.child_digests = st["digests"]
      return
    fd, path = tempfile.mkstemp(prefix="gsim-c30-", suffix=".json")
    try:
      with os.fdopen(fd, "w") as f:
        json.dump({"events": sim.events}, f, default=repr)
      for hs in self.hashseeds:
        env = dict(os.environ)
        env["PYTHONHASHSEED"] = hs
        env["GSIM_C30_CHILD"] = "1"
        p = subprocess.run([sys.executable, os.path.join(boot.VERIF_DIR, "bin", "c30child"), path],
                           capture_output=True, text=True, env=env, timeout=300)
        line = [l for l in p.stdout.splitlines() if l.startswith("DIGESTS ")]
        if not line:
          raise RuntimeError("c30 child failed: %s" % (p.stderr[-800:],))
        other = json.loads(line[0][8:])
        mine = st["digests"]
        if other != mine:
          idx = next((i for i, (a, b) in enumerate(zip(mine, other)) if a != b), min(len(mine), len(other)))
          what = "final state" if idx == len(mine) - 1 else "reply to event %d (%s)" % (
            idx, json.dumps(sim.events[idx], default=repr)[:200] if idx < len(sim.events) else "?")
          raise vio(sim, "hashseed-digest", "PYTHONHASHSEED=%s vs %s: %s differs" % (
            os.environ.get("PYTHONHASHSEED"), hs, what))
        sim.count("probe.child_interpreters")
    finally:
      try:
        os.unlink(path)
      except OSError:
        pass
    sim.count("oracle.hashseed")
    sim.count("oracle.nontrivial")
    sim.shapes.add(self.shape(sim))

  def rule_text(self):
    return (super(C30, self).rule_text() + "; every run is additionally replayed in %d fresh "
            "interpreters with other hash seeds" % len(self.hashseeds))


# -- C24 ------------------------------------------------------------------------------------------

HOSTILE_EXPRS = [
  "type('S', (str,), {})('sub')", "type('I', (int,), {})(7)", "type('F', (float,), {})(1.5)",
  "type('B', (bytes,), {})(b'xy')", "type('L', (list,), {})([1, 2])", "type('D', (dict,), {})({'a': 1})",
  "{1, 2, 3}", "frozenset(['a'])", "2 ** 31", "2 ** 63", "2 ** 100", "-(2 ** 64)",
  "{1: 'a', (1, 2): 'b', None: 3}", "b'\\xff\\xfe'", "float('nan')", "float('inf')", "-float('inf')",
  "[[[[1]]]]", "(lambda: [x for x in [[]] if not x.append(x)][0])()",
  "(lambda d: d.setdefault('self', d) and d)({})",
  "(lambda n: [n.append(None) or n for _ in [0]] and n)([])",
  "__import__('datetime').datetime(2020, 1, 2, 3, 4, 5)", "__import__('datetime').date(2020, 1, 2)",
  "__import__('datetime').datetime(2020, 1, 2, tzinfo=__import__('datetime').timezone.utc)",
  "__import__('datetime').timedelta(days=1)", "__import__('datetime').time(1, 2)",
  "rec", "ValueError('boom')", "(x for x in [1])", "(lambda: 1)", "object()", "type",
  "type('R', (object,), {'__repr__': lambda self: 1 / 0})()",
  "type('R2', (object,), {'__str__': lambda self: 1 / 0, '__repr__': lambda self: 1 / 0})()",
  "'\\ud800'", "'\\x00abc'", "1e308 * 10", "complex(1, 2)", "range(3)", "bytearray(b'ab')",
  "memoryview(b'ab')", "{'a': {'b': [1, {2: 3}]}}", "[1, 'a', None, True, 2.5, [3]]",
  "True", "None", "'plain'", "12345678901234567890", "0.1 + 0.2", "-0.0",
  "__import__('decimal').Decimal('1.5')", "__import__('fractions').Fraction(1, 3)",
  "Ellipsis", "NotImplemented", "[r for r in [rec]]", "{'k': rec}", "(1, (2, (3,)))",
  # containers whose *keys* or row-id lists are instances of subclasses (round 5)
  "{type('S', (str,), {})('k'): 1}", "{'o': {type('S', (str,), {})('k'): [type('S', (str,), {})('v')]}}",
  "{type('S', (str,), {'__str__': lambda self: 'other'})('k'): 2}",
  "H.lookupRecords(sort_by='a')", "H.lookupRecords(a=$a)", "H.lookupRecords(sort_by='-a').id",
  "{'rs': H.lookupRecords(sort_by='a')}", "[H.lookupRecords(a=1), H.lookupOne(a=2)]",
  "__import__('collections').OrderedDict([('a', 1)])", "__import__('collections').Counter('aab')",
  "__import__('collections').namedtuple('P', 'x y')(1, 2)",
  "__import__('enum').IntEnum('E', 'A B').A", "__import__('enum').Enum('E', 'A B').A",
]


def deep_expr(depth):
  return "(lambda f: f(f, %d))(lambda f, n: [] if n == 0 else [f(f, n - 1)])" % depth


class C24(Profile):
  prop = "C24"
  name = "c24"
  technique = ("deterministic simulation of the transport: the real Sandbox marshal framing over a "
               "simulated pipe, with formulas and trigger formulas returning hostile Python values")
  quick_runs = 700
  max_events = 16
  sandbox_death_is_violation = True

  def config(self, rng, tier):
    return {"max_events": rng.randint(5, self.max_events), "deep": rng.choice([0, 50, 400, 2000]),
            "types": rng.sample(["Any", "Text", "Int", "Numeric", "Date", "ChoiceList", "Bool"], 3)}

  def first_events(self, sim, g, cfg):
    return [{"k": "open"},
            {"k": "bundle", "a": [["AddTable", "H", [{"id": "a", "type": "Int", "isFormula": False}]],
                                  ["BulkAddRecord", "H", [None, None], {"a": [1, 2]}]], "ops": ["setup"]}]

  def next_event(self, sim, g, cfg, st, i):
    rng = g.rng
    expr = rng.choice(HOSTILE_EXPRS + ([deep_expr(cfg["deep"])] if cfg["deep"] else []))
    r = rng.random()
    cid = g.new_col_id("h")
    ctype = rng.choice(cfg["types"])
    if rng.random() < 0.2:
      # an echo: the value another (hostile) column holds after its type's conversion, passed on
      # as is or inside a container, by a column that does no conversion of its own
      dv = DocView(sim.sigma)
      t = dv.tables.get("H")
      hcols = [c.colId for c in t.cols.values() if c.colId.startswith("h")] if t else []
      if hcols:
        src = rng.choice(hcols)
        expr = rng.choice(["$%s", "[$%s]", "{'k': $%s}", "rec.%s", "list($%s or [])"]) % src
        ctype = "Any"
    elif rng.random() < 0.12:
      # a reference-typed formula column fed by a lookup: its cells hold the type's own list
      # class (RecordList), which echo columns then pass on
      expr = rng.choice(["H.lookupRecords(sort_by='a')", "H.lookupRecords(a=$a)", "H.lookupRecords(sort_by='-a')",
                         "H.lookupRecords(a=1, order_by='-id')", "H.all", "[r for r in H.all]"])
      ctype = "RefList:H"
      r = 0.0
    if r < 0.55:
      return {"k": "bundle", "a": [["AddColumn", "H", cid, {"type": ctype, "isFormula": True,
                                                           "formula": expr}]], "ops": ["hostile_formula"]}
    if r < 0.75:
      return {"k": "bundle", "a": [["AddColumn", "H", cid, {"type": ctype, "isFormula": False,
                                                           "formula": expr}],
                                   ["AddRecord", "H", None, {"a": 3}]], "ops": ["hostile_trigger"]}
    if r < 0.85:
      return {"k": "bundle", "a": [["AddRecord", "H", None, {"a": rng.choice([1, 5])}]], "ops": ["addrow"]}
    if r < 0.92:
      dv = DocView(sim.sigma)
      t = dv.tables.get("H")
      fcols = [c for c in t.cols.values() if c.formula] if t else []
      if fcols and t.row_ids:
        c = rng.choice(fcols)
        return {"k": "read", "call": "get_formula_error", "args": ["H", c.colId, rng.choice(t.row_ids)]}
    if r < 0.96:
      return {"k": "restart", "mode": "reported"}
    return {"k": "undo"}

  def step(self, sim, ev, st):
    import objtypes
    for n in ev.get("ops", ()):
      sim.count("op." + n)
    try:
      out = sim.do(ev)
    except AssertionError as e:
      if "fetch_table(" in str(e) and "failed" in str(e):
        # the snapshot after the event could not be fetched: a fetch_table reply that cannot be
        # delivered is what the property excludes
        raise vio(sim, "fetch-failed", str(e)[:400])
      raise
    if ev["k"] == "open":
      return out
    if out.ok is False:
      # The call came back as EXC. For apply_user_actions this is legal only if nothing changed.
      if ev["k"] in ("bundle", "undo", "redo"):
        d = eq.diff(out.pre, out.post) if out.pre is not None else []
        if d:
          raise vio(sim, "reply-lost-after-change", "call returned EXC (%s) but the engine had "
                    "already applied changes: %s" % (str(out.error)[:200], "; ".join(d[:3])))
        sim.count("probe.exc_without_change")
      elif ev["k"] == "restart":
        raise vio(sim, "reload-failed", "reloading reported data failed: %s" % out.error)
      else:
        sim.count("probe.read_raised")
      return out
    # every cell of every table: encode(decode(x)) == x, and the frame was marshal-safe by
    # construction (it arrived through marshal.loads in SimPipeOut).
    cells = 0
    for tid, td in sim.sigma.items():
      for c, vals in td[3].items():
        if not isinstance(vals, list):
          continue
        for v in vals:
          cells += 1
          try:
            back = objtypes.encode_object(objtypes.decode_object(v))
          except Exception as e:    # pylint: disable=broad-except
            raise vio(sim, "roundtrip-raised", "%s.%s: decode/encode of %r raised %r" % (tid, c, v, e))
          try:
            differs = eq.norm(back) != eq.norm(v) or _strict_ne(back, v)
          except RecursionError:
            import marshal
            differs = marshal.dumps(back, 2) != marshal.dumps(v, 2)
          if differs:
            raise vio(sim, "roundtrip", "%s.%s: %r decodes and re-encodes to %r" % (tid, c, v, back))
    for a in out.stored + out.undo:
      pass
    sim.count("oracle.roundtrip_cells", cells)
    if sim.store_errors:
      raise vio(sim, "replica-apply", sim.store_errors[0])
    d = eq.diff(sim.store.snapshot(), sim.sigma)
    if d:
      raise vio(sim, "replica-state", "; ".join(d[:3]))
    if out.stored:
      sim.count("oracle.nontrivial")
      f = ev["a"][0][3].get("formula", "") if ev["k"] == "bundle" and len(ev["a"][0]) > 3 and isinstance(ev["a"][0][3], dict) else ""
      sim.shapes.add("%s/%s" % (ev.get("ops", ["?"])[0], f[:40]))
    return out

  def rule_text(self):
    return ("one case = one seeded run adding formula / trigger-formula columns that return values "
            "from a hostile pool (%d expressions + deep nesting) into typed columns; distinct = "
            "distinct (op, expression) pairs whose reply was delivered and checked" % len(HOSTILE_EXPRS))

  def domain_text(self):
    return "hostile Python values returned by formulas; excludes values whose repr embeds addresses from equality across processes (not needed here)"


def _strict_ne(a, b):
  """Structural inequality that also distinguishes bool from int (json/marshal do)."""
  if type(a) != type(b):
    if isinstance(a, (int, float)) and isinstance(b, (int, float)) and not isinstance(a, bool) \
        and not isinstance(b, bool):
      return a != b and not (a != a and b != b)
    return True
  if isinstance(a, list):
    return len(a) != len(b) or any(_strict_ne(x, y) for x, y in zip(a, b))
  if isinstance(a, dict):
    return set(a) != set(b) or any(_strict_ne(a[k], b[k]) for k in a)
  if isinstance(a, float) and a != a:
    return b == b
  return a != b


PROFILES = [C06(), C18Full(), C29(), C30(), C24()]
