"""
C25: migrations. The simulator adds the lifecycle around the migration chain: a durable document at
an older schema version is opened through the real RPCs (create_migrations over the pipe, doc
actions applied to the replica, load_meta_tables / load_table / Calculate), then the sandbox is
restarted and the already-migrated document is opened again.
"""
import json

from .. import eq, boot
from ..profile import Profile, vio
from ..proc import EngineProc, db_blob
from ..sim import Sim, Outcome
from ..store import SimStore, StoreError

HOSTILE_TEXT = ["", "x", "{", "[]", "null", "{}", '{"a": 1}', '[1, 2]', '"str"', "{\"text\": 5}", "[[]]",
                "not json", "é中", "x" * 3000, "1", "true", '{"widget": "TextBox", "alignment": "left"}',
                '{"included": ["a"]}', '{"text": "rec.a == 1"}', '["L", 1]', "rec.a ==", "$a +", "a,b,c", "*",
                '{"name": "N", "tableId": "Data1", "lookupColId": "a"}', "\x00", "  ", '{"parsed": 1}',
                '[{"x": null}]', '{"choices": ["a"], "choiceOptions": {}}', '{"dropdownCondition": {"text": "x"}}',
                # comment bodies (_grist_Cells.content), as clients of various ages wrote them
                '{"text": "hi", "timeCreated": null, "timeUpdated": null, "resolved": null}',
                '{"text": "hi", "timeCreated": 1700000000000, "timeUpdated": 1700000000500, "resolved": true}',
                '{"timeCreated": "yesterday", "resolved": "no"}', '{"timeCreated": [1], "timeUpdated": {}}',
                '{"timeCreated": 1e400}', '{"timeCreated": true, "timeUpdated": 12.5}', '{"timeUpdated": null}']


def schema_at_version(v):
  """{table: [col info dicts]} of the metadata schema at version v: the version-0 schema brought
  forward by the first v registered migrations (on an empty document)."""
  import table_data_set
  import migrations
  import test_migrations
  import actions
  tdset = table_data_set.TableDataSet()
  tdset.apply_doc_actions(test_migrations.schema_version0())
  tdset.apply_doc_action(actions.AddRecord("_grist_DocInfo", 1, {"schemaVersion": 0}))
  for k in range(1, v + 1):
    fn = migrations.all_migrations.get(k, migrations.noop_migration)
    tdset.apply_doc_actions(fn(tdset))
  sch = tdset.get_schema()
  return {t: [dict(ci) for ci in cols.values()] for t, cols in sch.items()}


def seed_value(rng, ctype, ids, dangling_p):
  pure = ctype.split(":", 1)[0]
  if pure == "Text":
    return rng.choice(HOSTILE_TEXT)
  if pure == "Int":
    return rng.choice([0, 1, 2, 7, -1, 100])
  if pure == "Bool":
    return rng.choice([True, False])
  if pure == "Numeric":
    return rng.choice([0.0, 1.5, -2.0, 1e9])
  if pure in ("PositionNumber", "ManualSortPos"):
    return rng.choice([1.0, 2.0, 3.5, 10.0])
  if pure in ("DateTime", "Date"):
    return rng.choice([None, 0, 1577923200, 1700000000.5])
  if pure == "ChoiceList":
    return rng.choice([None, ["L", "add"], ["L", "add", "update"], ["L"]])
  if pure == "Choice":
    return rng.choice(["", "a", "b"])
  if pure == "Ref":
    target = ctype.split(":", 1)[1]
    pool = ids.get(target, [])
    if pool and rng.random() > dangling_p:
      return rng.choice(pool + [0])
    return rng.choice([0, 0, 99])
  if pure == "RefList":
    target = ctype.split(":", 1)[1]
    pool = ids.get(target, [])
    k = rng.randint(0, min(3, len(pool)))
    if k == 0:
      return None
    xs = rng.sample(pool, k)
    if rng.random() < dangling_p:
      xs.append(98)
    return ["L"] + xs
  if pure in ("Any", "Blob", "Attachments"):
    return None
  return None


class MigSim(Sim):
  def __init__(self, prop):
    super(MigSim, self).__init__(prop)

  def _ev_mkdoc(self, ev, out):
    """Create the durable document at version v in the replica."""
    self.store = SimStore()
    for a in ev["schema"]:
      self.store.apply(a)
    for a in ev["data"]:
      self.store.apply(a)
    out.ok = True
    out.post = self.store.snapshot()
    self.sigma = out.post

  def _ev_migrate(self, ev, out):
    """The open flow of Node: create_migrations over the pipe, apply to the replica."""
    proc = EngineProc(self.peer, name="M")
    src = self.store.snapshot()
    served = src
    if ev.get("row_order") is not None:
      # the storage layer promises no row order: serve every table's rows in a seeded permutation
      # (the replica itself stays keyed by id)
      import random
      prng = random.Random(ev["row_order"])
      served = {}
      for tid in sorted(src):
        _t, _id, row_ids, cols = src[tid]
        perm = list(range(len(row_ids)))
        prng.shuffle(perm)
        served[tid] = [_t, _id, [row_ids[i] for i in perm],
                       {c: [vals[i] for i in perm] for c, vals in cols.items()}]
      self.count("fault.rows_served_out_of_order")
    blobs = {tid: db_blob(td) for tid, td in served.items()}
    r = proc.call("create_migrations", blobs)
    out.ok = r.ok
    out.extra["pre_store"] = src
    if not r.ok:
      out.error = r.error
      return
    out.stored = r.value
    try:
      self.store.apply_all(r.value)
    except StoreError as e:
      out.extra["store_error"] = str(e)
    out.post = self.store.snapshot()
    self.sigma = out.post

  def _ev_openmigrated(self, ev, out):
    proc, rc = self.load_proc(self.store.snapshot(), name="O")
    out.ok = rc.ok
    out.error = rc.error
    if rc.ok:
      self.primary = proc
      from ..sim import split_reply
      out.stored = split_reply(rc.value)[0]
      self._to_store(out.stored)
      out.post = self.refresh()


class C25(Profile):
  prop = "C25"
  name = "c25"
  technique = ("deterministic simulation of the open-an-older-document lifecycle: a seeded, type-"
               "conformant durable document at every schema version 0..current is migrated through the "
               "real create_migrations RPC, the actions are applied to the independent replica, the "
               "result is loaded and calculated, then the sandbox restarts and opens it again")
  quick_runs = 470
  thorough_runs = 4700
  max_events = 4

  def config(self, rng, tier):
    import schema
    idx = getattr(self, "current_run_index", None)
    n = schema.SCHEMA_VERSION + 1
    v = (idx % n) if idx is not None else rng.randint(0, schema.SCHEMA_VERSION)
    return {"max_events": 0, "version": v, "rows": rng.choice([0, 1, 2, 3]),
            "dangling_p": rng.choice([0.0, 0.0, 0.1]), "user_tables": rng.randint(0, 2)}

  def new_sim(self, cfg):
    return MigSim(self.prop)

  def first_events(self, sim, g, cfg):
    rng = g.rng
    v = cfg["version"]
    sch = schema_at_version(v)
    schema_actions = [["AddTable", t, cols] for t, cols in sorted(sch.items())]
    data = []
    ids = {}
    # user tables first (their metadata records must be consistent for build_schema)
    ntab = cfg["user_tables"]
    table_rows, col_rows = [], []
    colref = 0
    for i in range(ntab):
      tid = "Data%d" % (i + 1)
      ucols = [{"id": "manualSort", "type": "ManualSortPos", "isFormula": False, "formula": ""},
               {"id": "a", "type": "Int", "isFormula": False, "formula": ""},
               {"id": "b", "type": "Text", "isFormula": False, "formula": ""}]
      schema_actions.append(["AddTable", tid, ucols])
      n = rng.randint(0, 3)
      if n:
        data.append(["BulkAddRecord", tid, list(range(1, n + 1)),
                     {"manualSort": [float(k) for k in range(1, n + 1)],
                      "a": [rng.randint(0, 9) for _ in range(n)],
                      "b": [rng.choice(HOSTILE_TEXT[:12]) for _ in range(n)]}])
      table_rows.append((i + 1, tid))
      for pos, c in enumerate(ucols):
        colref += 1
        col_rows.append((colref, i + 1, float(pos + 1), c["id"], c["type"]))
    ids["_grist_Tables"] = [r for r, _ in table_rows]
    ids["_grist_Tables_column"] = [r[0] for r in col_rows]
    order = sorted(sch)
    nrows = {}
    for t in order:
      if t in ("_grist_Tables", "_grist_Tables_column", "_grist_DocInfo"):
        continue
      nrows[t] = rng.randint(0, cfg["rows"])
      ids[t] = list(range(1, nrows[t] + 1))
    def cols_of(t):
      return {c["id"]: c["type"] for c in sch[t] if not c.get("isFormula")}
    # _grist_DocInfo
    cols = cols_of("_grist_DocInfo")
    vals = {c: [seed_value(rng, ty, ids, cfg["dangling_p"])] for c, ty in cols.items()}
    vals["schemaVersion"] = [v]
    data.append(["BulkAddRecord", "_grist_DocInfo", [1], vals])
    # _grist_Tables / _grist_Tables_column: consistent with the user tables
    if table_rows:
      cols = cols_of("_grist_Tables")
      vals = {c: [seed_value(rng, ty, ids, 0.0) for _ in table_rows] for c, ty in cols.items()}
      vals["tableId"] = [tid for _, tid in table_rows]
      for k in ("summarySourceTable", "onDemand"):
        if k in vals:
          vals[k] = [0 if k == "summarySourceTable" else False for _ in table_rows]
      data.append(["BulkAddRecord", "_grist_Tables", [r for r, _ in table_rows], vals])
      cols = cols_of("_grist_Tables_column")
      vals = {c: [seed_value(rng, ty, ids, 0.0) for _ in col_rows] for c, ty in cols.items()}
      vals["parentId"] = [r[1] for r in col_rows]
      vals["parentPos"] = [r[2] for r in col_rows]
      vals["colId"] = [r[3] for r in col_rows]
      vals["type"] = [r[4] for r in col_rows]
      vals["isFormula"] = [False for _ in col_rows]
      vals["formula"] = ["" for _ in col_rows]
      for k in ("summarySourceCol", "displayCol", "visibleCol", "reverseCol", "recalcWhen"):
        if k in vals:
          vals[k] = [0 for _ in col_rows]
      for k in ("rules", "recalcDeps"):
        if k in vals:
          vals[k] = [None for _ in col_rows]
      data.append(["BulkAddRecord", "_grist_Tables_column", [r[0] for r in col_rows], vals])
    for t in order:
      if t in ("_grist_Tables", "_grist_Tables_column", "_grist_DocInfo") or not nrows.get(t):
        continue
      cols = cols_of(t)
      vals = {c: [seed_value(rng, ty, ids, cfg["dangling_p"]) for _ in range(nrows[t])]
              for c, ty in cols.items()}
      data.append(["BulkAddRecord", t, ids[t], vals])
    mig = {"k": "migrate"}
    if rng.random() < 0.35:
      mig["row_order"] = rng.getrandbits(32)
    return [{"k": "mkdoc", "version": v, "schema": schema_actions, "data": data},
            mig, {"k": "openmigrated"}, {"k": "migrate", "again": True}]

  def next_event(self, sim, g, cfg, st, i):
    return None

  def step(self, sim, ev, st):
    import schema
    out = sim.do(ev)
    k = ev["k"]
    if k == "mkdoc":
      st["version"] = ev["version"]
      st["user"] = {t: td for t, td in out.post.items() if not t.startswith("_grist_")}
      return out
    if k == "migrate" and not ev.get("again"):
      if not out.ok:
        raise vio(sim, "migration-raised", "create_migrations on a version-%s document raised %s" % (
          st["version"], out.error))
      if out.extra.get("store_error"):
        raise vio(sim, "migration-action-does-not-apply", "version %s: %s" % (st["version"], out.extra["store_error"]))
      cur = {a.table_id: {c["id"]: c["type"] for c in a.columns} for a in schema.schema_create_actions()}
      got = {t: dict(info["cols"]) for t, info in sim.store.tables.items() if t.startswith("_grist_")}
      for t in got:
        got[t].pop("id", None)
      if got != cur:
        diffs = []
        for t in sorted(set(cur) | set(got)):
          if cur.get(t) != got.get(t):
            a, b = cur.get(t) or {}, got.get(t) or {}
            diffs.append("%s: missing %s, extra %s, retyped %s" % (
              t, sorted(set(a) - set(b)), sorted(set(b) - set(a)),
              sorted(c for c in set(a) & set(b) if a[c] != b[c])))
        raise vio(sim, "migrated-schema", "from version %s: %s" % (st["version"], "; ".join(diffs[:4])))
      ver = sim.store.tables["_grist_DocInfo"]["rows"][1]["schemaVersion"]
      if ver != schema.SCHEMA_VERSION:
        raise vio(sim, "schema-version", "schemaVersion is %r after migrating" % (ver,))
      for t, td in st["user"].items():
        if t not in out.post or eq.norm(out.post[t]) != eq.norm(td):
          raise vio(sim, "user-table-touched", "user table %s changed during migration from version %s" % (t, st["version"]))
      sim.count("oracle.migrated")
      sim.count("oracle.nontrivial")
      sim.shapes.add("v%s/rows%s" % (st["version"], sum(len(x["rows"]) for x in sim.store.tables.values()) > 3))
      return out
    if k == "openmigrated":
      if not out.ok:
        raise vio(sim, "open-after-migration", "loading the migrated version-%s document failed: %s" % (
          st["version"], out.error))
      sim.count("oracle.opened")
      return out
    if k == "migrate" and ev.get("again"):
      if not out.ok:
        raise vio(sim, "remigration-raised", "create_migrations on the migrated document raised %s" % out.error)
      acts = out.stored
      if len(acts) != 1 or acts[0][0] != "UpdateRecord" or acts[0][1] != "_grist_DocInfo" \
          or set(acts[0][3]) != {"schemaVersion"}:
        raise vio(sim, "remigration-not-idempotent", "migrating an already-current document produced %s" % (
          json.dumps(acts, default=repr)[:400]))
      sim.count("oracle.idempotent")
    return out

  def rule_text(self):
    return ("one case = one seeded durable document at schema version v (run index mod 47, so every "
            "version is covered every 47 runs) with type-conformant metadata incl. hostile Text cells, "
            "migrated, loaded, restarted and re-migrated; distinct = (version, populated?) pairs")

  def domain_text(self):
    return ("metadata cells of their declared types; _grist_Tables/_grist_Tables_column kept consistent "
            "with the user tables (build_schema's precondition); other references plausible, dangling "
            "in 1/3 of the runs with probability 0.1 per cell")


PROFILES = [C25()]
