"""
Invariant-scan and step-relation profiles over simulated histories:
C09 (metadata references), C10 (no references to removed rows), C11 (two-way references),
C12 (summary tables), C20 (positions), C21 (identifiers), C26 (temp row ids), C27 (row id
allocation), C31 (direct flags), C36 (page tree), C41 (fetch_table queries).
"""
import json
import keyword
import math
import sys

from .. import eq, gen, fx, boot
from ..docview import DocView
from ..profile import Profile, vio
from ..sim import Sim, Violation, StopRun, split_reply
from .core import HistoryProfile


def _meta_schema():
  """{table: {col: type}} of the metadata tables, from the repo's schema definition."""
  import schema
  out = {}
  for a in schema.schema_create_actions():
    out[a.table_id] = {c["id"]: c["type"] for c in a.columns}
  return out


_META = None

def meta_schema():
  global _META
  if _META is None:
    _META = _meta_schema()
  return _META


# -- C09 ------------------------------------------------------------------------------------------

def scan_meta_refs(sim, snap, prop="C09"):
  ms = meta_schema()
  ids = {tid: set(td[2]) for tid, td in snap.items()}
  # generic form: every non-zero cell of a Ref:/RefList: metadata column resolves
  for tid, cols in ms.items():
    td = snap.get(tid)
    if td is None:
      raise vio(sim, "meta-table-missing", "metadata table %s is gone" % tid, prop)
    for cid, ctype in cols.items():
      if not ctype.startswith(("Ref:", "RefList:")):
        continue
      target = ctype.split(":", 1)[1]
      vals = td[3].get(cid)
      if vals is None:
        continue
      tgt_ids = ids.get(target, set())
      for r, v in zip(td[2], vals):
        refs = []
        if ctype.startswith("Ref:"):
          if isinstance(v, int) and not isinstance(v, bool) and v != 0:
            refs = [v]
        else:
          dv = eq.decode(v)
          if isinstance(dv, list):
            refs = [x for x in dv if isinstance(x, int)]
        for x in refs:
          if x not in tgt_ids:
            raise vio(sim, "dangling-meta-ref", "%s[%s].%s -> %s[%s] does not exist" % (
              tid, r, cid, target, x), prop)
  dv = DocView(snap)
  sections = {r: rec for r, rec in dv.records("_grist_Views_section")}
  # columns belong to a table
  for r, rec in dv.records("_grist_Tables_column"):
    if rec["parentId"] not in dv.table_by_ref:
      raise vio(sim, "column-without-table", "column record %s (%s) has parentId %s" % (
        r, rec["colId"], rec["parentId"]), prop)
  # fields: section exists, column exists and belongs to the section's table
  for r, rec in dv.records("_grist_Views_section_field"):
    sec = sections.get(rec["parentId"])
    if sec is None:
      raise vio(sim, "field-without-section", "field %s has parentId %s" % (r, rec["parentId"]), prop)
    col = dv.col_by_ref.get(rec["colRef"])
    if col is None:
      raise vio(sim, "field-without-column", "field %s has colRef %s" % (r, rec["colRef"]), prop)
    if col.table.ref != sec["tableRef"]:
      raise vio(sim, "field-column-of-other-table", "field %s of section %s (table %s) shows column "
                "%s of table %s" % (r, rec["parentId"], sec["tableRef"], col.colId, col.table.tableId), prop)
  # sections: table exists; view exists unless 0
  views = set(ids.get("_grist_Views", ()))
  for r, rec in sections.items():
    if rec["tableRef"] not in dv.table_by_ref:
      raise vio(sim, "section-without-table", "section %s has tableRef %s" % (r, rec["tableRef"]), prop)
    if rec["parentId"] and rec["parentId"] not in views:
      raise vio(sim, "section-without-view", "section %s has parentId %s" % (r, rec["parentId"]), prop)
  # tables: raw + record card sections exist and show this table; one record per table id
  seen = {}
  for t in dv.tables.values():
    pass
  for r, rec in dv.records("_grist_Tables"):
    tid = rec["tableId"]
    if tid in seen:
      raise vio(sim, "duplicate-table-record", "table id %s has records %s and %s" % (tid, seen[tid], r), prop)
    seen[tid] = r
    if tid.startswith("GristHidden_"):
      continue
    raw = rec.get("rawViewSectionRef")
    if not raw or raw not in sections:
      raise vio(sim, "table-without-raw-section", "table %s has rawViewSectionRef %r" % (tid, raw), prop)
    if sections[raw]["tableRef"] != r:
      raise vio(sim, "raw-section-of-other-table", "table %s raw section %s shows table %s" % (
        tid, raw, sections[raw]["tableRef"]), prop)
    card = rec.get("recordCardViewSectionRef")
    if card and (card not in sections or sections[card]["tableRef"] != r):
      raise vio(sim, "card-section", "table %s recordCardViewSectionRef %r invalid" % (tid, card), prop)
  # user tables known to the engine == table records
  data_tables = set(t for t in snap if not t.startswith("_grist_") and not t.startswith("#"))
  if data_tables != set(seen):
    raise vio(sim, "tables-vs-records", "tables=%s records=%s" % (sorted(data_tables), sorted(seen)), prop)
  # helper columns still used
  used_display = set()
  used_rules = set()
  for c in dv.all_cols():
    if c.displayCol:
      used_display.add(c.displayCol)
    used_rules.update(c.rules)
  for r, rec in dv.records("_grist_Views_section_field"):
    if rec.get("displayCol"):
      used_display.add(rec["displayCol"])
    used_rules.update(eq.decode(rec.get("rules")) or [])
  for r, rec in sections.items():
    used_rules.update(eq.decode(rec.get("rules")) or [])
  for c in dv.all_cols():
    if c.colId.startswith("gristHelper_Display") and c.ref not in used_display:
      raise vio(sim, "unused-display-helper", "%s.%s (#%s) is used by no column or field" % (
        c.table.tableId, c.colId, c.ref), prop)
    if c.colId.startswith(("gristHelper_ConditionalRule", "gristHelper_RowConditionalRule")) \
        and c.ref not in used_rules:
      raise vio(sim, "unused-rule-helper", "%s.%s (#%s) is in no rules list" % (
        c.table.tableId, c.colId, c.ref), prop)


class C09(HistoryProfile):
  prop = "C09"
  name = "c09"
  technique = ("deterministic simulation: seeded histories heavy on view/section/field/summary/"
               "helper-column activity and every removal path, with undo/redo and restarts; "
               "referential-integrity scan of the metadata after every successful bundle")
  p_undo = 0.08
  p_redo_after_undo = 0.5
  p_restart = 0.02

  def base_weights(self):
    w = dict(gen.DEFAULT_WEIGHTS)
    for k in ("add_view_section", "add_summary", "update_summary", "detach_summary",
              "remove_view_things", "add_view", "display_formula", "add_rule", "remove_column",
              "remove_table", "duplicate_table", "add_reverse", "rename_column", "rename_table"):
      w[k] = w.get(k, 1) * 4
    w["update_records"] = 4
    w["add_field"] = 6
    w["add_filter"] = 6
    w["link_sections"] = 4
    return w

  def check(self, sim, out, st):
    if out.ev["k"] == "bundle" and out.pre is not None:
      # A raw field record is taken as given by the engine (as from the Grist client, which only
      # offers columns of the section's table). One that names a section or column that does not
      # exist in the state it is applied to -- the generator's view of the document was stale
      # inside a multi-action bundle, or the minimiser cut what created them -- is outside the
      # domain, and so is everything after it.
      dvp = DocView(out.pre)
      secs = dict(dvp.records("_grist_Views_section"))
      for a in out.ev.get("a", []):
        if a[0] == "AddRecord" and a[1] == "_grist_Views_section_field":
          sec = secs.get(a[3].get("parentId"))
          col = dvp.col_by_ref.get(a[3].get("colRef"))
          if sec is None or col is None or col.table.ref != sec.get("tableRef"):
            sim.count("probe.stale_field_record")
            raise StopRun()
    if out.ok and out.ev["k"] in ("bundle", "undo", "redo", "restart"):
      scan_meta_refs(sim, sim.sigma)
      self.note_nontrivial(sim, out, "meta_refs")


# -- C10 ------------------------------------------------------------------------------------------

def ref_cells(snap, dv=None):
  """{(table, col): (kind, target, {row: decoded cell})} for data Ref/RefList columns of user tables."""
  dv = dv or DocView(snap)
  out = {}
  for t in dv.tables.values():
    td = snap.get(t.tableId)
    if td is None:
      continue
    for c in t.cols.values():
      if c.isFormula or c.pure not in ("Ref", "RefList"):
        continue
      vals = td[3].get(c.colId)
      if vals is None:
        continue
      out[(t.tableId, c.colId)] = (c.pure, c.target, dict(zip(td[2], [eq.decode(v) for v in vals])), c.ref)
  return out


def scan_no_dangling(sim, snap, prop="C10"):
  dv = DocView(snap)
  rows = {tid: set(td[2]) for tid, td in snap.items()}
  for (tid, cid), (kind, target, cells, _ref) in ref_cells(snap, dv).items():
    tgt = rows.get(target)
    if tgt is None:
      continue
    for r, v in cells.items():
      if kind == "Ref":
        if isinstance(v, int) and not isinstance(v, bool) and v != 0 and v not in tgt:
          raise vio(sim, "dangling-ref", "%s[%s].%s = %r but %s has no such row" % (tid, r, cid, v, target), prop)
      else:
        if isinstance(v, list):
          # (An empty list as such is not excluded by the property -- a trigger formula returning an
          # empty record set stores one. "None when nothing remains" is about what a removal leaves
          # behind, and is checked in the step relation of C10.check.)
          for x in v:
            if isinstance(x, int) and x not in tgt:
              raise vio(sim, "dangling-reflist", "%s[%s].%s = %r but %s has no row %s" % (
                tid, r, cid, v, target, x), prop)


class C10(HistoryProfile):
  prop = "C10"
  name = "c10"
  technique = ("deterministic simulation: seeded histories of reference edits and removals by every "
               "path (records, tables, auto-removal), undo/redo; dangling-reference scan plus the "
               "RefList step relation (others kept in order, None when empty)")
  p_undo = 0.06
  p_redo_after_undo = 0.5

  def base_weights(self):
    w = dict(gen.DEFAULT_WEIGHTS)
    w.update({"add_data_column": 10, "remove_records": 14, "update_records": 12, "add_records": 10,
              "remove_table": 3, "add_reverse": 3, "add_summary": 2, "ref_trigger": 3})
    return w

  def new_generator(self, rng, cfg):
    g = super(C10, self).new_generator(rng, cfg)
    g.ref_bias = True
    return g

  def next_event(self, sim, g, cfg, st, i):
    ev = super(C10, self).next_event(sim, g, cfg, st, i)
    if ev["k"] == "bundle" and len(ev.get("ops", [])) > 1:
      # one user-action group per bundle: a later group generated against the same Sigma could
      # write a reference to a row that an earlier group removes (a legal dangling id, which would
      # make the invariant meaningless)
      dv = DocView(sim.sigma)
      n, a = gen.gen_user_actions(g, dv, cfg["weights"])
      if a:
        return {"k": "bundle", "a": a, "ops": [n]}
    return ev

  def check(self, sim, out, st):
    k = out.ev["k"]
    if not out.ok or k not in ("bundle", "undo", "redo"):
      return
    scan_no_dangling(sim, sim.sigma)
    # step relation on removals
    if out.pre is not None and k == "bundle":
      pre_rows = {tid: set(td[2]) for tid, td in out.pre.items()}
      post_rows = {tid: set(td[2]) for tid, td in sim.sigma.items()}
      pre_cells = ref_cells(out.pre)
      post_cells = ref_cells(sim.sigma)
      by_ref_post = {v[3]: (k2, v) for k2, v in post_cells.items()}
      written = self._written_cells(out)
      for (tid, cid), (kind, target, cells, cref) in pre_cells.items():
        if kind != "RefList" or cref not in by_ref_post:
          continue
        (tid2, cid2), (kind2, target2, cells2, _r) = by_ref_post[cref]
        if kind2 != "RefList":
          continue
        removed = pre_rows.get(target, set()) - post_rows.get(target2, set())
        if not removed or target2 not in post_rows:
          continue
        for r, v in cells.items():
          if r not in cells2 or not isinstance(v, list) or not (set(v) & removed):
            continue
          if (tid2, r, cid2) in written:
            continue
          expect = [x for x in v if x not in removed] or None
          if cells2[r] != expect:
            raise vio(sim, "reflist-after-removal", "%s[%s].%s was %r, rows %s of %s were removed, "
                      "now %r (expected %r)" % (tid2, r, cid2, v, sorted(removed), target2, cells2[r], expect))
          sim.count("probe.reflist_trimmed")
    self.note_nontrivial(sim, out, "dangling")

  @staticmethod
  def _written_cells(out):
    """Cells explicitly written by the user's own actions in this bundle (they may legally differ)."""
    w = set()
    for a in out.ev.get("a", []):
      if a[0] == "UpdateRecord":
        for c in a[3]:
          w.add((a[1], a[2], c))
      elif a[0] == "BulkUpdateRecord":
        for r in a[2]:
          for c in a[3]:
            w.add((a[1], r, c))
    return w


# -- C11 ------------------------------------------------------------------------------------------

def op_switch_ref_type(g, dv, protected):
  cands = [(t, c) for t in gen.data_tables(dv) for c in t.user_cols()
           if c.reverseCol and c.pure in ("Ref", "RefList") and not c.isFormula]
  if not cands:
    return None
  t, c = g.rng.choice(cands)
  new = ("RefList:" if c.pure == "Ref" else "Ref:") + c.target
  return [["ModifyColumn", t.tableId, c.colId, {"type": new}]]


def op_break_link(g, dv, protected):
  cands = [(t, c) for t in gen.data_tables(dv) for c in t.user_cols() if c.reverseCol]
  if not cands:
    return None
  t, c = g.rng.choice(cands)
  if g.rng.random() < 0.5:
    return [["ModifyColumn", t.tableId, c.colId, {"reverseCol": 0}]]
  return [["RemoveColumn", t.tableId, c.colId]]


def op_link_existing(g, dv, protected):
  """Link two existing, mutually pointing reference columns through a reverseCol update."""
  cols = [c for t in gen.data_tables(dv) for c in t.user_cols()
          if c.pure in ("Ref", "RefList") and not c.isFormula and not c.formula and not c.reverseCol
          and c.target in dv.tables]
  pairs = [(a, b) for a in cols for b in cols
           if a.ref != b.ref and a.target == b.table.tableId and b.target == a.table.tableId]
  if not pairs:
    return None
  # Mostly link columns whose data already mirror each other (e.g. a pair whose link was just
  # removed); linking columns with contradicting data has no symmetric outcome (finding F-w).
  cells = ref_cells(dv.snap, dv)
  def mirrored(a, b):
    ka, kb = (a.table.tableId, a.colId), (b.table.tableId, b.colId)
    if ka not in cells or kb not in cells:
      return False
    def tg(kind, v):
      if kind == "Ref":
        return {v} if isinstance(v, int) and v else set()
      return set(v) if isinstance(v, list) else set()
    fwd = {(r, x) for r, v in cells[ka][2].items() for x in tg(cells[ka][0], v)}
    back = {(x, r) for r, v in cells[kb][2].items() for x in tg(cells[kb][0], v)}
    return fwd == back
  good = [(a, b) for a, b in pairs if mirrored(a, b)]
  if good and g.rng.random() < 0.85:
    a, b = g.rng.choice(good)
  elif g.cfg.get("allow_contradicting_link"):
    a, b = g.rng.choice(pairs)
  else:
    return None
  return [["ModifyColumn", a.table.tableId, a.colId, {"reverseCol": b.ref}]]


gen.OPS["switch_ref_type"] = op_switch_ref_type
gen.OPS["break_link"] = op_break_link
gen.OPS["link_existing"] = op_link_existing


def scan_symmetry(sim, snap, prop="C11"):
  dv = DocView(snap)
  cells = ref_cells(snap, dv)
  by_ref = {v[3]: (k, v) for k, v in cells.items()}
  pairs = 0
  for c in dv.all_cols():
    if not c.reverseCol or c.ref > c.reverseCol and dv.col_by_ref.get(c.reverseCol) is not None \
        and dv.col_by_ref[c.reverseCol].reverseCol == c.ref:
      continue
    d = dv.col_by_ref.get(c.reverseCol)
    if d is None:
      raise vio(sim, "reverse-col-missing", "%s.%s has reverseCol %s which does not exist" % (
        c.table.tableId, c.colId, c.reverseCol), prop)
    if d.reverseCol != c.ref:
      raise vio(sim, "reverse-col-not-mutual", "%s.%s -> #%s but #%s -> #%s" % (
        c.table.tableId, c.colId, d.ref, d.ref, d.reverseCol), prop)
    if c.ref not in by_ref or d.ref not in by_ref:
      continue
    pairs += 1
    (_k1, (kind1, _t1, cells1, _)) = by_ref[c.ref]
    (_k2, (kind2, _t2, cells2, _)) = by_ref[d.ref]
    def targets(kind, v):
      if kind == "Ref":
        return {v} if isinstance(v, int) and not isinstance(v, bool) and v else set()
      return set(x for x in v if isinstance(x, int)) if isinstance(v, list) else set()
    fwd = {(a, b) for a, v in cells1.items() for b in targets(kind1, v)}
    back = {(a, b) for b, v in cells2.items() for a in targets(kind2, v)}
    if fwd != back:
      only_f = sorted(fwd - back)[:4]
      only_b = sorted(back - fwd)[:4]
      raise vio(sim, "asymmetric", "pair %s.%s <-> %s.%s: only forward %s, only backward %s "
                "(pairs are (row of %s, row of %s))" % (
                  c.table.tableId, c.colId, d.table.tableId, d.colId, only_f, only_b,
                  c.table.tableId, d.table.tableId), prop)
  return pairs


class C11(HistoryProfile):
  prop = "C11"
  name = "c11"
  technique = ("deterministic simulation: seeded histories on both sides of two-way reference "
               "pairs (edits, bulk edits with duplicate targets, removals, Ref<->RefList switches, "
               "link creation/removal, undo/redo); symmetry scan after every reply, no-trace on rejection")
  p_undo = 0.08
  p_redo_after_undo = 0.5
  max_events = 34

  def base_weights(self):
    w = {"add_records": 8, "update_records": 22, "remove_records": 8, "add_table": 3,
         "add_data_column": 8, "add_reverse": 10, "switch_ref_type": 6, "break_link": 2,
         "link_existing": 3, "remove_table": 1, "rename_column": 1, "rename_table": 1,
         "add_formula_column": 2, "duplicate_table": 1}
    return w

  def config(self, rng, tier):
    cfg = super(C11, self).config(rng, tier)
    cfg["weights"] = gen.swarm_weights(rng, self.base_weights(),
                                       keep=("add_records", "update_records", "add_table",
                                             "add_data_column", "add_reverse"), p_off=0.25)
    cfg["max_tables"] = rng.randint(1, 3)
    cfg["none_p"] = 0.05
    cfg["seed_pair"] = rng.choice([None, "ref", "reflist", "self"])
    return cfg

  def first_events(self, sim, g, cfg):
    evs = [{"k": "open"}]
    kind = cfg.get("seed_pair")
    if kind:
      # most runs start with a two-way pair in place, so that the history works on it from the start
      g.ntab += 2
      g.ncol += 3
      typ = {"ref": "Ref:T2", "reflist": "RefList:T2", "self": "RefList:T1"}[kind]
      acts = [["AddTable", "T2", [{"id": "c1", "type": "Text", "isFormula": False}]],
              ["BulkAddRecord", "T2", [None] * 3, {"c1": ["a", "b", "c"]}],
              ["AddTable", "T1", [{"id": "c2", "type": "Int", "isFormula": False},
                                  {"id": "c3", "type": typ, "isFormula": False}]],
              ["BulkAddRecord", "T1", [None] * 3, {"c2": [1, 2, 3]}],
              ["AddReverseColumn", "T1", "c3"]]
      evs.append({"k": "bundle", "a": acts, "ops": ["seed_pair"]})
    return evs

  def next_event(self, sim, g, cfg, st, i):
    for _ in range(5):
      ev = super(C11, self).next_event(sim, g, cfg, st, i)
      if ev["k"] == "bundle" and len(ev.get("ops", ())) > 1 and (
          "remove_records" in ev["ops"] or "link_existing" in ev["ops"]):
        # a later group generated against the same Sigma could refer to a row that an earlier
        # group removes: a (legal) dangling id, for which symmetry is not defined
        continue
      if ev["k"] != "bundle" or not self._writes_both_sides(sim, ev):
        return ev
    return {"k": "bundle", "a": [["Calculate"]], "ops": ["noop"]}

  @staticmethod
  def _writes_both_sides(sim, ev):
    """Domain note (DESIGN C11): one action writing both columns of a pair with values that
    contradict each other has no symmetric outcome short of rejection (finding F-q); the
    generator never writes both sides of a pair in one bundle."""
    dv = DocView(sim.sigma)
    written = set()
    for a in ev["a"]:
      if a[0] in ("UpdateRecord", "BulkUpdateRecord", "AddRecord", "BulkAddRecord") and a[1] in dv.tables:
        for cid in a[3]:
          c = dv.tables[a[1]].cols.get(cid)
          if c is not None and c.reverseCol:
            written.add(c.ref)
    return any(dv.col_by_ref[r].reverseCol in written for r in written)

  def check(self, sim, out, st):
    k = out.ev["k"]
    if k not in ("bundle", "undo", "redo"):
      return
    if out.ok is False and k == "bundle":
      d = eq.diff(out.pre, out.post)
      if d:
        raise vio(sim, "rejection-left-trace", "rejected bundle (%s) changed the document: %s" % (
          str(out.error)[:120], "; ".join(d[:3])))
      if "UniqueReferenceError" in str(out.error) or "unique" in str(out.error).lower():
        sim.count("probe.unique_reference_rejections")
      return
    if not out.ok:
      return
    pairs = scan_symmetry(sim, sim.sigma)
    sim.count("oracle.symmetry")
    if pairs and out.stored:
      sim.count("oracle.nontrivial")
      sim.shapes.add("%s/%s" % (self.shape(sim), ",".join(out.ev.get("ops", ()))))


# -- C12 ------------------------------------------------------------------------------------------

def scan_summaries(sim, snap, prop="C12"):
  dv = DocView(snap)
  n = 0
  for st in dv.summary_tables():
    src = dv.table_by_ref.get(st.summarySource)
    if src is None:
      raise vio(sim, "summary-without-source", "%s has summarySourceTable %s" % (st.tableId, st.summarySource), prop)
    gb = []     # (summary col id, source col)
    for c in st.cols.values():
      if c.summarySourceCol:
        sc = dv.col_by_ref.get(c.summarySourceCol)
        if sc is None:
          raise vio(sim, "groupby-without-source-col", "%s.%s" % (st.tableId, c.colId), prop)
        gb.append((c.colId, sc))
    gb.sort(key=lambda x: x[0])
    src_rows = eq.rows_of(snap[src.tableId])
    sum_rows = eq.rows_of(snap[st.tableId])
    # expected: key tuple -> ascending source row ids
    expected = {}
    skip = False
    for r in sorted(src_rows):
      alts = []
      for _cid, sc in gb:
        v = src_rows[r].get(sc.colId)
        if isinstance(v, eq.Err):
          skip = True       # the statement defines no key for an error cell
          break
        if sc.pure in ("ChoiceList", "RefList"):
          if isinstance(v, list):
            elems = []
            for x in v:
              if x not in elems:
                elems.append(x)
            if not elems:
              elems = ["" if sc.pure == "ChoiceList" else 0]
            alts.append(elems)
          elif v is None:
            alts.append(["" if sc.pure == "ChoiceList" else 0])
          else:
            alts.append([])       # a non-list value contributes no key
        else:
          if sc.pure == "Date" and isinstance(v, (int, float)) and not isinstance(v, bool) \
              and v == v and abs(v) != float("inf"):
            # formulas (and hence grouping) see a Date cell as a calendar date: timestamps of the
            # same UTC day are one key, reported as that day's midnight
            v = float((v // 86400) * 86400)
          alts.append([v])
      if skip:
        break
      keys = [()]
      for elems in alts:
        keys = [k + (e,) for k in keys for e in elems]
      for k in keys:
        expected.setdefault(_hashable(k), (k, []))[1].append(r)
    if skip:
      sim.count("probe.summary_skipped_error_key")
      continue
    n += 1
    seen = {}
    for r, rec in sum_rows.items():
      key = tuple(rec.get(cid) for cid, _sc in gb)
      hk = _hashable(key)
      if hk in seen:
        raise vio(sim, "summary-duplicate-key", "%s rows %s and %s share key %r" % (st.tableId, seen[hk], r, key), prop)
      seen[hk] = r
      group = rec.get("group")
      if isinstance(group, eq.Err):
        raise vio(sim, "summary-group-error", "%s[%s].group is %r" % (st.tableId, r, group), prop)
      group = group or []
      if hk not in expected:
        raise vio(sim, "summary-extra-row", "%s[%s] has key %r (group %r) which no source row has" % (
          st.tableId, r, key, group), prop)
      if not group:
        raise vio(sim, "summary-empty-group", "%s[%s] key %r has an empty group" % (st.tableId, r, key), prop)
      if list(group) != expected[hk][1]:
        raise vio(sim, "summary-group-rows", "%s[%s] key %r: group %r, source rows with that key %r" % (
          st.tableId, r, key, group, expected[hk][1]), prop)
    missing = [expected[hk][0] for hk in expected if hk not in seen]
    if missing:
      raise vio(sim, "summary-missing-row", "%s has no row for key(s) %r" % (st.tableId, missing[:3]), prop)
  return n


def _hashable(k):
  """Key identity as dictionaries see it (Python equality: 1 == 1.0 == True)."""
  out = []
  for x in k:
    if isinstance(x, list):
      x = tuple(x)
    elif isinstance(x, dict):
      x = tuple(sorted(x.items()))
    if isinstance(x, float) and x != x:
      x = ("nan",)
    out.append(x)
  return tuple(out)


class C12(HistoryProfile):
  prop = "C12"
  name = "c12"
  technique = ("deterministic simulation: seeded histories of source edits, group-by changes, "
               "renames, type changes, detach and removals (with undo/redo and restarts); naive "
               "group-by of the source compared with every summary table after each reply")
  p_undo = 0.08
  p_redo_after_undo = 0.5
  p_restart = 0.02
  max_events = 34

  def base_weights(self):
    w = dict(gen.DEFAULT_WEIGHTS)
    w.update({"add_summary": 12, "update_summary": 8, "detach_summary": 2, "add_summary_formula": 2,
              "update_records": 22, "add_records": 10, "remove_records": 8, "rename_column": 4,
              "modify_type": 3, "add_formula_column": 3})
    return w

  def config(self, rng, tier):
    cfg = super(C12, self).config(rng, tier)
    cfg["weights"] = gen.swarm_weights(rng, self.base_weights(),
                                       keep=("add_records", "update_records", "add_table", "add_summary"))
    # summary tables grouped by a reference, incl. a reference to the rows of another summary table
    # (whose removal clears the reference and so regroups this one: a cascade of removals)
    cfg["groupby_refs"] = rng.random() < 0.5
    cfg["ref_to_summary_p"] = rng.choice([0.0, 0.3, 0.6])
    cfg["cascade_start"] = rng.random() < 0.2
    if cfg["cascade_start"]:
      cfg["groupby_refs"] = True
    return cfg

  def first_events(self, sim, g, cfg):
    yield {"k": "open"}
    if not cfg.get("cascade_start"):
      return
    # A document in which removing one empty summary row empties a group of another summary
    # table: B refers to the rows of A's summary table and is itself summarised by that reference
    # (with one row whose reference is empty). The seeded history then edits A and B.
    a, b = g.new_table_id(), g.new_table_id()
    x, y, r = g.new_col_id(), g.new_col_id(), g.new_col_id()
    yield {"k": "bundle", "ops": ["add_table"], "a": [
      ["AddTable", a, [{"id": x, "type": "Text", "isFormula": False}, {"id": y, "type": "Int", "isFormula": False}]],
      ["BulkAddRecord", a, [None] * 4, {x: ["a", "b", "b", "c"], y: [1, 2, 3, 4]}]]}
    dv = DocView(sim.sigma)
    yield {"k": "bundle", "ops": ["add_summary"], "a": [
      ["CreateViewSection", dv.tables[a].ref, 0, "record", [dv.tables[a].cols[x].ref], None]]}
    dv = DocView(sim.sigma)
    sums = [t for t in dv.summary_tables()]
    if not sums:
      return
    yield {"k": "bundle", "ops": ["add_table"], "a": [
      ["AddTable", b, [{"id": r, "type": "Ref:" + sums[0].tableId, "isFormula": False}]],
      ["BulkAddRecord", b, [None] * 4, {r: [1, 2, 0, 3]}]]}
    dv = DocView(sim.sigma)
    yield {"k": "bundle", "ops": ["add_summary"], "a": [
      ["CreateViewSection", dv.tables[b].ref, 0, "record", [dv.tables[b].cols[r].ref], None]]}

  def check(self, sim, out, st):
    if out.ok and out.ev["k"] in ("bundle", "undo", "redo", "restart"):
      n = scan_summaries(sim, sim.sigma)
      sim.count("oracle.summary")
      if n and (out.stored or out.ev["k"] == "restart"):
        sim.count("oracle.nontrivial")
        sim.shapes.add("%s/%s" % (self.shape(sim), ",".join(out.ev.get("ops", ()))))


# -- C20 ------------------------------------------------------------------------------------------

def _nextafter(x, up):
  return math.nextafter(x, math.inf if up else -math.inf)


def op_position_edit(g, dv, protected):
  rng = g.rng
  ts = [t for t in gen.data_tables(dv)]
  if not ts:
    return None
  t = rng.choice(ts)
  pos = sorted(v for v in dv.cells(t.tableId, "manualSort").values() if isinstance(v, (int, float)))
  def hostile():
    k = rng.random()
    if pos and k < 0.35:
      return rng.choice(pos)
    if pos and k < 0.5:
      return _nextafter(rng.choice(pos), rng.random() < 0.5)
    if pos and k < 0.6:
      # a few representable floats away from an existing row: leaves gaps that hold some new
      # rows but not many ("crowded neighbouring floats")
      v = rng.choice(pos)
      up = rng.random() < 0.5
      for _ in range(rng.randint(2, 6)):
        v = _nextafter(v, up)
      return v
    if k < 0.7:
      return rng.choice([float("inf"), -float("inf"), 0.0, -1.0, 1e308])
    if pos and k < 0.85:
      a = rng.choice(pos)
      return (a + rng.choice(pos)) / 2.0
    return rng.choice([0.5, 1.5, 2.5, 100.0, None])
  n = rng.choice([1, 2, 3, 4, 5, 6])
  kind = rng.random()
  if kind < 0.6 or not t.row_ids:
    n = max(1, min(n, g.max_rows - len(t.row_ids)))
    vals = [hostile() for _ in range(n)]
    if rng.random() < 0.3:
      vals = [vals[0]] * n
    if len(t.row_ids) >= g.max_rows:
      return None
    return [["BulkAddRecord", t.tableId, [None] * n, {"manualSort": vals}]]
  rows = rng.sample(t.row_ids, min(n, len(t.row_ids)))
  return [["BulkUpdateRecord", t.tableId, rows, {"manualSort": [hostile() for _ in rows]}]]


gen.OPS["position_edit"] = op_position_edit

POSITION_COLS = {"_grist_Tables_column": ["parentPos"], "_grist_Views_section": ["parentPos"],
                 "_grist_Views_section_field": ["parentPos"], "_grist_Pages": ["pagePos"],
                 "_grist_TabBar": ["tabPos"], "_grist_Filters": []}


def position_columns(snap):
  ms = meta_schema()
  out = []
  for tid, cols in ms.items():
    for cid, ctype in cols.items():
      if ctype in ("PositionNumber", "ManualSortPos") and tid in snap:
        out.append((tid, cid))
  for tid, td in snap.items():
    if not tid.startswith("_grist_") and "manualSort" in td[3]:
      out.append((tid, "manualSort"))
  return out


class C20(HistoryProfile):
  prop = "C20"
  name = "c20"
  technique = ("deterministic simulation: seeded histories with adversarial requested positions "
               "(ties, nextafter neighbours, duplicates, infinities, batches); uniqueness scan of every "
               "position column plus the order/placement step relation")
  p_undo = 0.03
  max_events = 30

  def base_weights(self):
    w = dict(gen.DEFAULT_WEIGHTS)
    w.update({"position_edit": 40, "add_records": 8, "remove_records": 6, "add_view_section": 3,
              "add_view": 3, "add_data_column": 4})
    return w

  def config(self, rng, tier):
    cfg = super(C20, self).config(rng, tier)
    cfg["weights"] = gen.swarm_weights(rng, self.base_weights(),
                                       keep=("add_records", "add_table", "position_edit"))
    cfg["max_rows"] = rng.choice([8, 12, 20])
    # "Crowded neighbouring floats" only come about one way: the engine recomputes every requested
    # position, so a gap of a few representable floats needs some 50 halvings of one gap. A share
    # of the runs starts with a script that does exactly that (batches tied with one anchor row,
    # older batches removed again so the table stays small), then goes on with the usual edits
    # around rows that are now a few ulps apart -- where the engine has to renumber.
    cfg["crowd_rounds"] = rng.choice([0, 0, 0, 0, 14, 20, 26])
    if cfg["crowd_rounds"]:
      cfg["max_events"] = 2 * cfg["crowd_rounds"] + rng.randint(8, 20)
      cfg["max_rows"] = 40
    return cfg

  def next_event(self, sim, g, cfg, st, i):
    rounds = cfg.get("crowd_rounds", 0)
    if rounds and 1 <= i <= 2 * rounds:
      dv = DocView(sim.sigma)
      ts = gen.data_tables(dv)
      t = ts[0] if ts else None
      if t is not None and len(t.row_ids) >= 2:
        anchor = st.setdefault("anchor", sorted(t.row_ids)[-1])
        pos = dv.cells(t.tableId, "manualSort")
        if anchor in pos and isinstance(pos[anchor], (int, float)):
          batches = st.setdefault("batches", [])
          if i % 2 == 0 and len(batches) >= 2:
            old = [r for r in batches.pop(0) if r in pos and r != anchor]
            if old:
              return {"k": "bundle", "ops": ["crowd_remove"], "a": [["BulkRemoveRecord", t.tableId, old]]}
          n = g.rng.randint(3, 6)
          st["expect_batch"] = True
          return {"k": "bundle", "ops": ["position_edit", "crowd"],
                  "a": [["BulkAddRecord", t.tableId, [None] * n, {"manualSort": [pos[anchor]] * n}]]}
    return super(C20, self).next_event(sim, g, cfg, st, i)

  def check(self, sim, out, st):
    k = out.ev["k"]
    if not out.ok or k not in ("bundle",):
      return
    if "crowd" in out.ev.get("ops", ()) and out.ret and isinstance(out.ret[0], list):
      st.setdefault("batches", []).append(list(out.ret[0]))
      gaps = sorted(v for v in sim.sigma[out.ev["a"][0][1]][3]["manualSort"] if isinstance(v, float))
      if any(b > a and (b - a) <= 8 * math.ulp(a) for a, b in zip(gaps, gaps[1:])):
        sim.count("probe.rows_within_8_ulps")
    snap = sim.sigma
    for tid, cid in position_columns(snap):
      vals = snap[tid][3].get(cid)
      if vals is None:
        continue
      seen = {}
      init = {}
      if tid in sim.sigma0 and cid in sim.sigma0[tid][3]:
        init = dict(zip(sim.sigma0[tid][2], sim.sigma0[tid][3][cid]))
      for r, v in zip(snap[tid][2], vals):
        if r in init and init[r] == v:
          # rows written by InitNewDoc's raw doc actions (raw doc-action replay bypasses position
          # assignment by design; the property speaks about histories of user actions)
          continue
        if not isinstance(v, (int, float)) or isinstance(v, bool):
          raise vio(sim, "position-not-number", "%s[%s].%s = %r" % (tid, r, cid, v))
        if math.isinf(v) or v != v:
          raise vio(sim, "position-not-finite", "%s[%s].%s = %r" % (tid, r, cid, v))
        if v in seen:
          raise vio(sim, "position-duplicate", "%s rows %s and %s share %s = %r" % (tid, seen[v], r, cid, v))
        seen[v] = r
    sim.count("oracle.positions_unique")
    # step relation for single position actions
    acts = out.ev.get("a", [])
    if "position_edit" in out.ev.get("ops", ()) and len(acts) == 1 and out.pre is not None:
      self._step_relation(sim, out, acts[0])
      sim.count("oracle.nontrivial")
      sim.shapes.add("%s/%s/%d" % (acts[0][0], "ties" if self._has_ties(out, acts[0]) else "free",
                                   min(len(acts[0][2]), 5)))

  @staticmethod
  def _has_ties(out, a):
    pre = set(out.pre[a[1]][3]["manualSort"]) if a[1] in out.pre else set()
    req = a[3]["manualSort"]
    return any(v in pre for v in req) or len(set(map(repr, req))) < len(req)

  def _step_relation(self, sim, out, a):
    tid = a[1]
    if tid not in out.pre or tid not in sim.sigma:
      return
    pre = dict(zip(out.pre[tid][2], out.pre[tid][3]["manualSort"]))
    post = dict(zip(sim.sigma[tid][2], sim.sigma[tid][3]["manualSort"]))
    req = a[3]["manualSort"]
    if a[0] == "BulkAddRecord":
      new_rows = out.ret[0]
      moved = dict(zip(new_rows, req))
    else:
      moved = dict(zip(a[2], req))
    stay = [r for r in pre if r not in moved and r in post]
    # existing rows keep their relative order
    before = sorted(stay, key=lambda r: pre[r])
    after = sorted(stay, key=lambda r: post[r])
    if before != after:
      raise vio(sim, "existing-order-changed", "%s: rows not touched were ordered %s, now %s" % (tid, before, after))
    # each moved row sits where its requested position falls: after every staying row with a
    # smaller pre-position, before every staying row with an equal or larger one
    for r, p in moved.items():
      if r not in post:
        continue
      if p is None:
        p = float("inf")
      for s in stay:
        if pre[s] < p and not post[s] < post[r]:
          raise vio(sim, "placement", "%s: row %s requested %r must come after row %s (pos %r), got %r vs %r" % (
            tid, r, p, s, pre[s], post[r], post[s]))
        if pre[s] >= p and not post[r] < post[s]:
          raise vio(sim, "placement", "%s: row %s requested %r must come before row %s (pos %r), got %r vs %r" % (
            tid, r, p, s, pre[s], post[r], post[s]))
    # moved rows keep the order of their requested positions (stable)
    order = list(moved.keys())
    want = sorted(order, key=lambda r: (float("inf") if moved[r] is None else moved[r]))
    got = sorted(order, key=lambda r: post.get(r, 0))
    if [r for r in want if r in post] != [r for r in got if r in post]:
      raise vio(sim, "new-rows-order", "%s: requested %r, resulting order %s, expected %s" % (
        tid, moved, got, want))


# -- C21 ------------------------------------------------------------------------------------------

HOSTILE_NAMES = ["class", "def", "None", "True", "for", "1abc", "_x", "__init__", "a b", "a-b", "a.b",
                 "é", "Ünï", "é", "名前", "", " ", "A", "a", "id", "ID", "Id", "manualSort",
                 "group", "count", "x" * 70, "9", "_", "$x", "T1", "t1", "Table1", "TABLE1", "lookupRecords",
                 "rec", "table", "gristHelper_Display", "a__b", "a*b", "a_b", "A_B", "\n", "a\tb", "😀",
                 "if", "else", "print", "Record", "sum", "x1", "X1", "_grist_Tables", "GristHidden_x",
                 # words that only become keywords once capitalised (table ids are), and friends
                 "none", "true", "false", "_none", " false", "NONE", "async", "await", "match", "Class",
                 "nonlocal", "lambda", "__", "0", "a" * 200]


def op_hostile_name(g, dv, protected):
  rng = g.rng
  name = rng.choice(HOSTILE_NAMES + [None])
  ts = gen.data_tables(dv)
  kinds = ["add_table", "add_table2"]
  if ts:
    kinds += ["add_col", "add_col", "rename_col", "rename_col", "rename_table", "label", "add_cols"]
  k = rng.choice(kinds)
  if k == "add_table" and len(ts) < g.max_tables + 1:
    return [["AddTable", name, [{"id": rng.choice(HOSTILE_NAMES + [None]), "type": "Text", "isFormula": False},
                                {"id": rng.choice(HOSTILE_NAMES + [None]), "type": "Int", "isFormula": False}]]]
  if k == "add_table2" and len(ts) < g.max_tables + 1:
    return [["AddEmptyTable", name]]
  if not ts:
    return None
  t = rng.choice(ts)
  if k == "add_col":
    return [["AddColumn", t.tableId, name, {"type": "Text", "isFormula": False}]]
  if k == "add_cols":
    return [["AddColumn", t.tableId, name, {"type": "Text", "isFormula": False}],
            ["AddColumn", t.tableId, rng.choice(HOSTILE_NAMES), {"type": "Text", "isFormula": False}]]
  cols = t.user_cols()
  if k == "rename_col" and cols and name is not None:
    c = rng.choice(cols)
    if rng.random() < 0.5:
      return [["RenameColumn", t.tableId, c.colId, name]]
    return [["UpdateRecord", "_grist_Tables_column", c.ref, {"colId": name}]]
  if k == "label" and cols and name is not None:
    c = rng.choice(cols)
    return [["UpdateRecord", "_grist_Tables_column", c.ref, {"label": name}]]
  if k == "rename_table" and name is not None:
    return [["RenameTable", t.tableId, name]]
  return None


gen.OPS["hostile_name"] = op_hostile_name


def valid_ident(s, table=False):
  if not isinstance(s, str) or not s.isascii() or not s.isidentifier() or keyword.iskeyword(s):
    return False
  if s[0] == "_" or s[0].isdigit():
    return False
  if table and not s[0].isupper():
    return False
  return True


class C21(HistoryProfile):
  prop = "C21"
  name = "c21"
  technique = ("deterministic simulation (system-level reading): seeded histories of adds/renames/"
               "label changes with hostile names, incl. summary-table sister columns; metadata scan "
               "for validity and case-insensitive uniqueness, and requested-name-kept step check")
  p_undo = 0.04
  max_events = 30

  def base_weights(self):
    w = dict(gen.DEFAULT_WEIGHTS)
    w.update({"hostile_name": 45, "add_summary": 4, "add_summary_formula": 3, "update_records": 3,
              "add_records": 3})
    return w

  def config(self, rng, tier):
    cfg = super(C21, self).config(rng, tier)
    cfg["weights"] = gen.swarm_weights(rng, self.base_weights(), keep=("add_table", "hostile_name"))
    cfg["twin_summaries_start"] = rng.random() < 0.2
    return cfg

  def first_events(self, sim, g, cfg):
    yield {"k": "open"}
    if not cfg.get("twin_summaries_start"):
      return
    # Two summary tables of one source whose natural ids coincide (grouped by [a, b] and by the
    # column a_b): every id picked for one of them in a batch has to avoid the other's.
    t = g.new_table_id()
    yield {"k": "bundle", "ops": ["add_table"], "a": [
      ["AddTable", t, [{"id": "a", "type": "Text", "isFormula": False}, {"id": "b", "type": "Text", "isFormula": False},
                       {"id": "a_b", "type": "Text", "isFormula": False}]],
      ["BulkAddRecord", t, [None, None], {"a": ["x", "y"], "b": ["p", "q"], "a_b": ["u", "v"]}]]}
    dv = DocView(sim.sigma)
    ta = dv.tables[t]
    yield {"k": "bundle", "ops": ["add_summary"], "a": [
      ["CreateViewSection", ta.ref, 0, "record", sorted([ta.cols["a"].ref, ta.cols["b"].ref]), None]]}
    yield {"k": "bundle", "ops": ["add_summary"], "a": [
      ["CreateViewSection", ta.ref, 0, "record", [ta.cols["a_b"].ref], None]]}
    yield {"k": "bundle", "ops": ["hostile_name"], "a": [["RenameTable", t, g.new_table_id()]]}

  def check(self, sim, out, st):
    if out.ok is False and out.ev["k"] == "bundle" and "hostile_name" in out.ev.get("ops", ()):
      # A requested name never makes the action fail: the engine picks an id for it. An id that
      # is not valid Python shows up as the generated module failing to compile.
      err = str(out.error)
      if "SyntaxError" in err or "invalid syntax" in err or "keyword" in err or "IndentationError" in err \
          or "already exists" in err:
        raise vio(sim, "chosen-id-does-not-compile", "%s raised %s" % (
          json.dumps(out.ev["a"], default=repr)[:300], err[:300]))
      sim.count("probe.hostile_name_action_rejected")
    if not out.ok or out.ev["k"] not in ("bundle", "undo", "redo"):
      return
    dv = DocView(sim.sigma)
    seen_t = {}
    for t in dv.tables.values():
      if not valid_ident(t.tableId, table=True):
        raise vio(sim, "invalid-table-id", "table id %r" % t.tableId)
      u = t.tableId.upper()
      if u in seen_t:
        raise vio(sim, "table-id-collision", "%r and %r" % (seen_t[u], t.tableId))
      seen_t[u] = t.tableId
      seen_c = {"ID": "id"}
      for c in t.cols.values():
        if not valid_ident(c.colId):
          raise vio(sim, "invalid-col-id", "%s has column id %r" % (t.tableId, c.colId))
        uc = c.colId.upper()
        if uc in seen_c:
          raise vio(sim, "col-id-collision", "%s: %r and %r" % (t.tableId, seen_c[uc], c.colId))
        seen_c[uc] = c.colId
    sim.count("oracle.identifiers")
    # requested name kept when valid and free (single-action bundles only, against the pre-state)
    acts = out.ev.get("a", [])
    if out.ev["k"] == "bundle" and len(acts) == 1 and out.pre is not None:
      self._kept(sim, out, acts[0], DocView(out.pre), dv)
    if out.stored:
      sim.count("oracle.nontrivial")
      sim.shapes.add("%s/%s" % (",".join(out.ev.get("ops", ())), json.dumps(
        [a[2] if a[0] in ("AddColumn",) else a[1] for a in acts if len(a) > 2][:2], default=repr)))

  def _kept(self, sim, out, a, pre, post):
    name = a[0]
    if name == "AddColumn" and a[1] in pre.tables and isinstance(a[2], str):
      t = pre.tables[a[1]]
      avoid = {c.upper() for c in t.cols} | {"ID"}
      for st in pre.summary_tables():
        if st.summarySource == t.ref:
          avoid |= {c.upper() for c in st.cols}
      if valid_ident(a[2]) and a[2].upper() not in avoid:
        got = out.ret[0]["colId"]
        if got != a[2]:
          raise vio(sim, "valid-free-name-not-kept", "AddColumn(%s, %r) chose %r" % (a[1], a[2], got))
        sim.count("probe.valid_name_kept")
    if name in ("AddTable", "AddEmptyTable") and isinstance(a[1], str):
      avoid = {t.upper() for t in pre.snap if not t.startswith("#")}
      if valid_ident(a[1], table=True) and a[1].upper() not in avoid:
        got = out.ret[0]["table_id"]
        if got != a[1]:
          raise vio(sim, "valid-free-name-not-kept", "%s(%r) chose %r" % (name, a[1], got))
        sim.count("probe.valid_name_kept")
    if name == "RenameColumn" and a[1] in pre.tables and a[2] in pre.tables[a[1]].cols:
      t = pre.tables[a[1]]
      avoid = ({c.upper() for c in t.cols} | {"ID"}) - {a[2].upper()}
      for st in pre.summary_tables():
        if st.summarySource == t.ref:
          avoid |= {c.upper() for c in st.cols}
      c = t.cols[a[2]]
      if valid_ident(a[3]) and a[3].upper() not in avoid and not c.summarySourceCol:
        now = post.col_by_ref.get(c.ref)
        if now is not None and now.colId != a[3]:
          raise vio(sim, "valid-free-name-not-kept", "RenameColumn(%s, %s, %r) gave %r" % (a[1], a[2], a[3], now.colId))
        sim.count("probe.valid_name_kept")
    if name == "RenameTable" and a[1] in pre.tables:
      t = pre.tables[a[1]]
      avoid = {x.upper() for x in pre.snap if not x.startswith("#")} - {a[1].upper()}
      if valid_ident(a[2], table=True) and a[2].upper() not in avoid and not t.is_summary:
        now = post.table_by_ref.get(t.ref)
        if now is not None and now.tableId != a[2]:
          raise vio(sim, "valid-free-name-not-kept", "RenameTable(%s, %r) gave %r" % (a[1], a[2], now.tableId))
        sim.count("probe.valid_name_kept")

  def domain_text(self):
    return ("system-level reading only: identifiers as they end up in metadata through histories "
            "of user actions; names from a hostile pool of %d strings" % len(HOSTILE_NAMES))


# -- C31 ------------------------------------------------------------------------------------------

class C31(HistoryProfile):
  prop = "C31"
  name = "c31"
  technique = ("deterministic simulation: seeded histories on documents with formulas, summaries "
               "and empty columns; every reply's direct flags classified against its stored actions")
  max_events = 30

  def base_weights(self):
    w = dict(gen.DEFAULT_WEIGHTS)
    w.update({"add_formula_column": 10, "add_summary": 6, "add_summary_formula": 2,
              "update_records": 22, "add_records": 12, "remove_records": 8, "empty_column_entry": 8})
    return w

  def check(self, sim, out, st):
    if not out.ok or out.ev["k"] != "bundle":
      return
    if len(out.direct) != len(out.stored):
      raise vio(sim, "direct-parallel", "len(direct)=%d, len(stored)=%d" % (len(out.direct), len(out.stored)))
    pre = DocView(out.pre) if out.pre is not None else None
    post = DocView(sim.sigma)
    acts = out.ev.get("a", [])
    user_record_tables = set(a[1] for a in acts
                             if a[0] in ("AddRecord", "BulkAddRecord", "UpdateRecord", "BulkUpdateRecord",
                                         "RemoveRecord", "BulkRemoveRecord"))
    only_record_edits = all(a[0] in ("AddRecord", "BulkAddRecord", "UpdateRecord", "BulkUpdateRecord",
                                     "RemoveRecord", "BulkRemoveRecord")
                            and isinstance(a[1], str) and not a[1].startswith("_grist_")
                            for a in acts)
    if not only_record_edits or pre is None:
      sim.count("probe.not_a_pure_record_edit_bundle")
      return
    checked = 0
    last_writer = {}      # (table, row, col) -> index of the last stored update writing that cell
    for i, (a, d) in enumerate(zip(out.stored, out.direct)):
      tid = a[1] if len(a) > 1 and isinstance(a[1], str) else None
      t = pre.tables.get(tid) or post.tables.get(tid)
      if t is None:
        continue
      if a[0] in ("UpdateRecord", "BulkUpdateRecord", "AddRecord", "BulkAddRecord", "RemoveRecord",
                  "BulkRemoveRecord"):
        if t.is_summary:
          if d:
            raise vio(sim, "summary-action-direct", "stored %s on summary table %s is marked direct" % (a[0], tid))
          checked += 1
          continue
        if a[0] in ("UpdateRecord", "BulkUpdateRecord"):
          cols = list(a[3].keys())
          if cols and all((c in t.cols and t.cols[c].isFormula and t.cols[c].formula) for c in cols):
            if d:
              raise vio(sim, "formula-result-direct", "stored %s on %s writes only formula columns %s "
                        "but is marked direct" % (a[0], tid, cols))
            checked += 1
            continue
          rows = a[2] if isinstance(a[2], list) else [a[2]]
          for r in rows:
            for c in cols:
              last_writer[(tid, r, c)] = i
      elif a[0] == "ModifyColumn":
        # conversion of an empty column while data is entered
        if d:
          raise vio(sim, "empty-column-conversion-direct", "ModifyColumn %s.%s during data entry is direct" % (tid, a[2]))
        sim.count("probe.empty_column_converted")
        checked += 1
    # the user's own requested edits: the stored action that finally writes a requested cell, the
    # stored additions and the stored removals on that table are direct
    for u in acts:
      tid = u[1]
      t = pre.tables.get(tid)
      if t is None or t.is_summary:
        continue
      if u[0] in ("UpdateRecord", "BulkUpdateRecord"):
        rows = u[2] if isinstance(u[2], list) else [u[2]]
        for r in rows:
          for c in u[3]:
            col = t.cols.get(c)
            if col is None or (col.isFormula and col.formula) or col.formula:
              continue
            i = last_writer.get((tid, r, c))
            if i is not None:
              if not out.direct[i]:
                raise vio(sim, "user-edit-not-direct", "the stored action that writes the user's "
                          "requested cell %s[%s].%s is marked non-direct: %s" % (
                            tid, r, c, json.dumps(out.stored[i], default=repr)[:200]))
              checked += 1
      elif u[0] in ("AddRecord", "BulkAddRecord", "RemoveRecord", "BulkRemoveRecord"):
        kind = ("AddRecord", "BulkAddRecord") if "Add" in u[0] else ("RemoveRecord", "BulkRemoveRecord")
        idx = [i for i, a in enumerate(out.stored) if a[0] in kind and a[1] == tid]
        if idx:
          if not any(out.direct[i] for i in idx):
            raise vio(sim, "user-edit-not-direct", "no stored %s on %s is marked direct" % (kind[0], tid))
          checked += 1
    sim.count("oracle.direct", checked)
    if checked:
      sim.count("oracle.nontrivial")
      sim.shapes.add("%s/%s" % (self.shape(sim), ",".join(out.ev.get("ops", ()))))

  @staticmethod
  def _is_requested(a, acts, pre, t):
    """Does stored action `a` carry cells the user asked to write (same table, a data column the
    user named, or a row removal / addition the user asked for)?"""
    for u in acts:
      if u[1] != a[1]:
        continue
      if u[0] in ("RemoveRecord", "BulkRemoveRecord") and a[0] in ("RemoveRecord", "BulkRemoveRecord"):
        return True
      if u[0] in ("AddRecord", "BulkAddRecord") and a[0] in ("AddRecord", "BulkAddRecord"):
        return True
      if u[0] in ("UpdateRecord", "BulkUpdateRecord") and a[0] in ("UpdateRecord", "BulkUpdateRecord"):
        ucols = set(u[3].keys())
        acols = set(a[3].keys())
        urows = set(u[2]) if isinstance(u[2], list) else {u[2]}
        arows = set(a[2]) if isinstance(a[2], list) else {a[2]}
        data_cols = {c for c in acols if c in t.cols and not t.cols[c].isFormula and not t.cols[c].formula}
        if data_cols and data_cols <= ucols and arows <= urows:
          return True
    return False


def op_empty_column_entry(g, dv, protected):
  """Enter data into an empty column (isFormula=True, no formula): converts it on the fly."""
  ts = [t for t in gen.data_tables(dv) if t.row_ids]
  if not ts:
    return None
  t = g.rng.choice(ts)
  empties = [c for c in t.user_cols() if c.is_empty]
  if not empties:
    if len(t.user_cols()) >= g.max_cols:
      return None
    if g.rng.random() < 0.5:
      # an empty column whose type the user has already chosen
      return [["AddColumn", t.tableId, g.new_col_id("e"),
               {"type": g.rng.choice(["Int", "Text", "Numeric", "Bool", "Date"]), "isFormula": True, "formula": ""}]]
    return [["AddColumn", t.tableId, g.new_col_id("e"), {}]]
  c = g.rng.choice(empties)
  v = g.rng.choice([1, 2.5, "x", "12", "", None, True])
  return [["UpdateRecord", t.tableId, g.rng.choice(t.row_ids), {c.colId: v}]]


gen.OPS["empty_column_entry"] = op_empty_column_entry


# -- C36 ------------------------------------------------------------------------------------------

class C36(HistoryProfile):
  prop = "C36"
  name = "c36"
  technique = ("deterministic simulation (system-level reading): seeded histories of page edits and "
               "removal cascades (pages, views, tables); tree-validity + minimal-change relation on "
               "_grist_Pages after every bundle that removes pages")
  max_events = 30
  p_undo = 0.04

  def base_weights(self):
    return {"add_table": 10, "add_view": 14, "page_indent": 30, "remove_view_things": 18,
            "remove_table": 8, "add_records": 2, "update_records": 2, "add_view_section": 3,
            "duplicate_table": 2, "page_remove_many": 12, "page_move": 10}

  def config(self, rng, tier):
    cfg = super(C36, self).config(rng, tier)
    cfg["weights"] = gen.swarm_weights(rng, self.base_weights(),
                                       keep=("add_table", "add_view", "page_indent"), p_off=0.2)
    cfg["max_tables"] = rng.randint(2, 6)
    cfg["wild_indent_p"] = rng.choice([0.0, 0.0, 0.2, 0.4])
    return cfg

  @staticmethod
  def _pages(snap):
    td = snap["_grist_Pages"]
    rows = [(p, r, ind) for r, p, ind in zip(td[2], td[3]["pagePos"], td[3]["indentation"])]
    rows.sort()
    return [(r, ind) for (_p, r, ind) in rows]

  @staticmethod
  def _valid(inds):
    prev = -1
    for i, ind in enumerate(inds):
      if not isinstance(ind, int) or ind < 0:
        return False
      if i == 0 and ind != 0:
        return False
      if ind > prev + 1:
        return False
      prev = ind
    return True

  def check(self, sim, out, st):
    if not out.ok or out.ev["k"] != "bundle" or out.pre is None:
      return
    pre = self._pages(out.pre)
    post = self._pages(sim.sigma)
    pre_ids = [r for r, _ in pre]
    post_ids = [r for r, _ in post]
    removed = set(pre_ids) - set(post_ids)
    pre_valid = self._valid([ind for _, ind in pre])
    if not removed:
      return
    post_inds = [ind for _, ind in post]
    pre_map = dict(pre)
    if not pre_valid:
      # "For any list of pages": a list that was no valid tree to begin with still comes out as
      # one, and no page goes deeper. (Which pages may change is only defined for valid trees.)
      mixed = any(a[1] == "_grist_Pages" and a[0] not in ("RemoveRecord", "BulkRemoveRecord")
                  for a in out.ev.get("a", []) if len(a) > 1) or set(post_ids) - set(pre_ids)
      if mixed:
        return
      if not self._valid(post_inds):
        raise vio(sim, "page-tree-invalid", "after removing pages %s from the (invalid) list %s: %s" % (
          sorted(removed), pre, post))
      for r, ind in post:
        if ind > pre_map[r]:
          raise vio(sim, "page-deeper", "page %s went from indentation %s to %s" % (r, pre_map[r], ind))
      sim.count("oracle.page_tree_from_invalid")
      sim.count("oracle.nontrivial")
      return
    added = set(post_ids) - set(pre_ids)
    if added or any(a[0] in ("UpdateRecord", "BulkUpdateRecord") and a[1] == "_grist_Pages"
                    for a in out.ev.get("a", [])) or any(
                      a[0] in ("AddRecord", "BulkAddRecord") and a[1] == "_grist_Pages"
                      for a in out.stored):
      # the bundle also adds pages or sets indentations itself: the fix-up is not isolated
      sim.count("probe.page_removal_mixed_with_page_edits")
      return
    if not self._valid(post_inds):
      raise vio(sim, "page-tree-invalid", "after removing pages %s: %s (before: %s)" % (
        sorted(removed), post, pre))
    # never deeper
    for r, ind in post:
      if ind > pre_map[r]:
        raise vio(sim, "page-deeper", "page %s went from indentation %s to %s" % (r, pre_map[r], ind))
    # Only pages of a removed page's former subtree may change. (treeview.py documents that the
    # children of a removed page are promoted to its level even where leaving them would still be
    # a valid tree; the property's "changes only pages that would otherwise violate this" is
    # therefore checked in this form: everything outside those subtrees is untouched.)
    may_change = set()
    for i, (r, ind) in enumerate(pre):
      if r in removed:
        for (r2, ind2) in pre[i + 1:]:
          if ind2 <= ind:
            break
          may_change.add(r2)
    for r, ind in post:
      if ind != pre_map[r] and r not in may_change:
        raise vio(sim, "page-changed-needlessly", "page %s is in no removed page's subtree but went "
                  "from %s to %s (%s -> %s)" % (r, pre_map[r], ind, pre, post))
    # and within such a subtree, relative depths below the promoted child are kept or flattened,
    # never inverted: a page never ends up deeper than its predecessor + 1 (validity, above).
    sim.count("oracle.page_tree")
    sim.count("oracle.nontrivial")
    sim.shapes.add("pages:%s->%s" % ([i for _, i in pre], post_inds))

  def rule_text(self):
    return ("one case = one seeded history of page/view/table edits; non-trivial = a bundle removed "
            "pages from a valid tree and the relation was checked; distinct = distinct "
            "(indentation sequence before, after) pairs")


def op_page_remove_many(g, dv, protected):
  pages = [r for r, _rec in dv.records("_grist_Pages")]
  if len(pages) < 3:
    return None
  k = g.rng.randint(1, min(3, len(pages) - 1))
  return [["BulkRemoveRecord", "_grist_Pages", sorted(g.rng.sample(pages, k))]]


gen.OPS["page_remove_many"] = op_page_remove_many


def op_page_move(g, dv, protected):
  """Drag a page elsewhere in the page list (its pagePos changes, and its indentation to
  something that fits the new place): display order and row-id order part ways."""
  pages = sorted(dv.records("_grist_Pages"), key=lambda p: p[1]["pagePos"])
  if len(pages) < 3:
    return None
  i = g.rng.randrange(len(pages))
  rid = pages[i][0]
  rest = [p for p in pages if p[0] != rid]
  j = g.rng.randint(0, len(rest))
  before = rest[j - 1][1] if j > 0 else None
  after = rest[j][1] if j < len(rest) else None
  lo = before["pagePos"] if before else (after["pagePos"] - 2)
  hi = after["pagePos"] if after else (before["pagePos"] + 2)
  indent = 0 if before is None else g.rng.randint(0, (before["indentation"] or 0) + 1)
  return [["UpdateRecord", "_grist_Pages", rid, {"pagePos": (lo + hi) / 2.0, "indentation": indent}]]


gen.OPS["page_move"] = op_page_move


# -- C41 ------------------------------------------------------------------------------------------

class C41(HistoryProfile):
  prop = "C41"
  name = "c41"
  technique = ("deterministic simulation: fetch_table queries as read events interleaved in seeded "
               "histories (tables with a history of edits), reply compared with a naive filter of Sigma")
  max_events = 30

  def config(self, rng, tier):
    cfg = super(C41, self).config(rng, tier)
    cfg["p_query"] = rng.choice([0.3, 0.5])
    return cfg

  def next_event(self, sim, g, cfg, st, i):
    if g.rng.random() < cfg["p_query"]:
      dv = DocView(sim.sigma)
      ts = [t for t in dv.user_tables(include_summary=True)] or None
      if ts:
        t = g.rng.choice(ts)
        td = sim.sigma[t.tableId]
        cols = list(td[3].keys())
        k = g.rng.randint(1, min(2, len(cols)))
        q = {}
        for c in g.rng.sample(cols, k):
          vals = td[3][c]
          pick = g.rng.sample(vals, min(len(vals), g.rng.randint(0, 2)))
          pick += g.rng.sample([0, 1, "a", "", None, True, 2.5, ["L", "a"], ["L"], 1.0, False], g.rng.randint(0, 2))
          q[c] = pick
        if g.rng.random() < 0.35:
          # by row id, the way records are fetched for a list of references: in any order, with
          # repeats and with ids that do not exist
          rows = list(td[2])
          ids = [g.rng.choice(rows) for _ in range(g.rng.randint(1, 4))] if rows else []
          ids += g.rng.sample([0, 999, -1, "1", None, 1.0], g.rng.randint(0, 2))
          g.rng.shuffle(ids)
          q["id"] = ids
          if g.rng.random() < 0.5:
            q = {"id": ids}
        return {"k": "read", "call": "fetch_table", "args": [t.tableId, g.rng.random() < 0.7, q]}
    return super(C41, self).next_event(sim, g, cfg, st, i)

  def check(self, sim, out, st):
    ev = out.ev
    if ev["k"] != "read" or ev["call"] != "fetch_table":
      return
    tid, formulas, query = ev["args"]
    full = sim.sigma.get(tid)
    if full is None:
      return
    if not out.ok:
      # a query on a column that does not exist (cut replay) is an invalid request
      if all(c in full[3] or c == "id" for c in query):
        raise vio(sim, "query-raised", "fetch_table(%s, query=%r) raised %s" % (tid, query, out.error))
      return
    import objtypes
    dv = DocView(sim.sigma)
    t = dv.tables.get(tid)
    # Three-valued reference: a row whose queried cells are all primitives (their stored value is
    # what Sigma shows) must be returned iff each is == one of the requested values; a row with a
    # non-primitive queried cell (lists, dates in Any columns, errors: the stored Python object is
    # not what travels) may or may not match and is not constrained.
    must, may = [], []
    for i, r in enumerate(full[2]):
      verdict = True
      for c, wanted in query.items():
        cell = r if c == "id" else full[3][c][i]
        if cell is not None and not isinstance(cell, (bool, int, float, str)):
          verdict = None if verdict is not False else False
          continue
        if not any(_py_eq(cell, w) for w in wanted if w is None or isinstance(w, (bool, int, float, str))):
          verdict = False
      if verdict is True:
        must.append(r)
      elif verdict is None:
        may.append(r)
    got = out.reply
    got_rows = list(got[2])
    if got_rows != sorted(set(got_rows)):
      raise vio(sim, "query-order", "fetch_table(%s) rows not in row id order: %s" % (tid, got_rows))
    if not (set(must) <= set(got_rows) <= set(must) | set(may)):
      raise vio(sim, "query-rows", "fetch_table(%s, query=%s): rows %s; must contain %s, may contain %s" % (
        tid, json.dumps(query, default=repr)[:200], got_rows, must, may))
    expect_rows = got_rows
    want_cols = set(full[3].keys())
    if not formulas and t is not None:
      want_cols = {c for c in want_cols if c not in t.cols or not t.cols[c].isFormula}
    if set(got[3].keys()) != want_cols and not tid.startswith("_grist_"):
      raise vio(sim, "query-columns", "fetch_table(%s, formulas=%s) returned columns %s, expected %s" % (
        tid, formulas, sorted(got[3]), sorted(want_cols)))
    idx = {r: i for i, r in enumerate(full[2])}
    for c in got[3]:
      if c in full[3]:
        exp = [full[3][c][idx[r]] for r in expect_rows]
        if eq.norm(exp) != eq.norm(got[3][c]):
          raise vio(sim, "query-values", "fetch_table(%s): column %s values %r, expected %r" % (tid, c, got[3][c], exp))
    sim.count("oracle.query")
    sim.count("oracle.nontrivial")
    sim.shapes.add("%s/q%d/%s/%d" % (self.shape(sim)[:80], len(query), formulas, min(len(expect_rows), 3)))


def _py_eq(a, b):
  try:
    return bool(a == b)
  except Exception:     # pylint: disable=broad-except
    return False


# -- C26 / C27: row ids ------------------------------------------------------------------------------

ROWID_SCHEMA = [
  ["AddTable", "A", [{"id": "n", "type": "Int", "isFormula": False},
                     {"id": "rb", "type": "Ref:B", "isFormula": False},
                     {"id": "lb", "type": "RefList:B", "isFormula": False},
                     {"id": "self", "type": "Ref:A", "isFormula": False}]],
  ["AddTable", "B", [{"id": "t", "type": "Text", "isFormula": False},
                     {"id": "ra", "type": "Ref:A", "isFormula": False}]],
]
# B is added first (A's columns refer to it), then B.ra once A exists:
ROWID_SETUP = [["AddTable", "B", [{"id": "t", "type": "Text", "isFormula": False}]],
               ROWID_SCHEMA[0],
               ["AddColumn", "B", "ra", {"type": "Ref:A", "isFormula": False}]]


def data_rows(snap, tid, cols):
  td = snap[tid]
  return {r: {c: eq.decode(td[3][c][i]) for c in cols} for i, r in enumerate(td[2])}


class C26(HistoryProfile):
  prop = "C26"
  name = "c26"
  technique = ("deterministic simulation: seeded bundles of dependent actions using temporary "
               "(negative) row ids over a document with a history; reference interpretation of the "
               "bundle against the pre-state, no-trace check on rejection")
  max_events = 24
  COLS = {"A": ["n", "rb", "lb", "self"], "B": ["t", "ra"]}

  def config(self, rng, tier):
    return {"max_events": rng.randint(6, self.max_events), "p_bad": rng.choice([0.1, 0.25]),
            "p_undo": 0.05}

  def first_events(self, sim, g, cfg):
    return [{"k": "open"}, {"k": "bundle", "a": ROWID_SETUP, "ops": ["rowid_schema"]}]

  def next_event(self, sim, g, cfg, st, i):
    rng = g.rng
    if rng.random() < cfg["p_undo"] and sim.ptr > 1:
      return {"k": "undo"}
    dv = DocView(sim.sigma)
    rows = {t: list(dv.tables[t].row_ids) for t in ("A", "B") if t in dv.tables}
    if len(rows) < 2:
      return None
    temp = {"A": [], "B": []}
    hi = {t: max(rows[t] + [0]) for t in rows}
    acts = []
    next_neg = [-1]
    def new_temp(t):
      v = next_neg[0]
      next_neg[0] -= 1
      temp[t].append(v)
      return v
    def ref(t, allow_unknown=False):
      pool = rows[t][-4:] + temp[t]
      if allow_unknown:
        return rng.choice([-99, -7])
      if not pool or rng.random() < 0.15:
        return 0
      return rng.choice(pool)
    def reflist(t, bad=False):
      k = rng.randint(0, 3)
      xs = [ref(t) for _ in range(k)]
      xs = [x for x in xs if x]
      if bad:
        xs.append(rng.choice([-99, -7]))
      return (["L"] + xs) if xs else None
    bad = rng.random() < cfg["p_bad"]
    bad_at = rng.randint(0, 3) if bad else -1
    for j in range(rng.randint(1, 5)):
      isbad = (j == bad_at)
      t = rng.choice(["A", "B"])
      kind = rng.choice(["add", "add", "bulkadd", "update", "remove", "update"])
      if kind == "add":
        rid = new_temp(t) if rng.random() < 0.8 else None
        hi[t] += 1
        if t == "A":
          vals = {"n": rng.randint(0, 9), "rb": ref("B", isbad), "lb": reflist("B"), "self": ref("A")}
        else:
          vals = {"t": rng.choice("abc"), "ra": ref("A", isbad)}
        acts.append(["AddRecord", t, rid, vals])
      elif kind == "bulkadd":
        n = rng.randint(1, 3)
        ids = [new_temp(t) if rng.random() < 0.7 else None for _ in range(n)]
        if rng.random() < 0.35:
          # explicit ids next to temporary ones, at or just above the id the table would hand out
          # next (an estimate: a wrong guess only gets the bundle rejected)
          k = rng.randrange(n)
          if ids[k] is not None:
            temp[t].remove(ids[k])
          ids[k] = hi[t] + rng.choice([1, 1, 2, 3]) + sum(1 for x in ids[:k] if x is None or x < 0) * rng.choice([0, 1])
        hi[t] = max([hi[t] + n] + [x for x in ids if isinstance(x, int) and x > 0])
        if t == "A":
          vals = {"n": [rng.randint(0, 9) for _ in range(n)], "rb": [ref("B") for _ in range(n)],
                  "lb": [reflist("B", isbad and k == 0) for k in range(n)]}
        else:
          vals = {"t": [rng.choice("abc") for _ in range(n)], "ra": [ref("A") for _ in range(n)]}
        acts.append(["BulkAddRecord", t, ids, vals])
      elif kind == "update":
        pool = rows[t][-4:] + temp[t]
        if not pool:
          continue
        rid = rng.choice(pool) if not isbad else rng.choice([-99, -7])
        if t == "A":
          vals = rng.choice([{"n": rng.randint(10, 19)}, {"rb": ref("B")}, {"lb": reflist("B")},
                             {"self": ref("A")}])
        else:
          vals = rng.choice([{"t": rng.choice("xyz")}, {"ra": ref("A")}])
        acts.append(["UpdateRecord", t, rid, vals])
      else:
        pool = temp[t] + rows[t][-2:]
        if not pool:
          continue
        rid = rng.choice(pool)
        acts.append(["RemoveRecord", t, rid])
        if rid in temp[t]:
          temp[t].remove(rid)
        elif rid in rows[t]:
          rows[t].remove(rid)
    if not acts:
      acts = [["AddRecord", "A", -1, {"n": 1}]]
    ops = ["tempids" + ("_bad" if bad else "")]
    if len(acts) >= 2 and rng.random() < 0.2:
      # the table changes its name in mid-bundle (and gets it back at the end): temporary ids
      # created under the old name must still stand for their rows under the new one
      t = rng.choice(["A", "B"])
      k = rng.randint(1, len(acts) - 1)
      acts = (acts[:k] + [["RenameTable", t, t + "9"]] +
              [[a[0], t + "9"] + a[2:] if a[1] == t else a for a in acts[k:]] +
              [["RenameTable", t + "9", t]])
      ops.append("rename_mid_bundle")
    return {"k": "bundle", "a": acts, "ops": ops}

  def step(self, sim, ev, st):
    out = sim.do(ev)
    for n in ev.get("ops", ()):
      sim.count("op." + n)
    if ev["k"] != "bundle" or "rowid_schema" in ev.get("ops", ()) or out.pre is None:
      return out
    if "A" not in out.pre or "B" not in out.pre:
      return out
    acts, ret = ev["a"], (out.ret if out.ok else None)
    if "rename_mid_bundle" in ev.get("ops", ()):
      # interpret the bundle under the tables' lasting names
      keep = [i for i, a in enumerate(acts) if a[0] != "RenameTable"]
      if ret is not None:
        ret = [ret[i] for i in keep]
      acts = [[acts[i][0], acts[i][1].rstrip("9")] + acts[i][2:] for i in keep]
    model = self._interpret(out.pre, acts, ret)
    if model == "unknown-temp":
      if out.ok:
        raise vio(sim, "unknown-temp-id-accepted", "bundle uses a negative id that no action in it "
                  "created, but was accepted: %s" % json.dumps(ev["a"], default=repr)[:400])
      d = eq.diff(out.pre, out.post)
      if d:
        raise vio(sim, "rejection-left-trace", "; ".join(d[:3]))
      sim.count("oracle.unknown_temp_rejected")
      sim.count("oracle.nontrivial")
      sim.shapes.add("reject/" + ",".join(a[0] for a in ev["a"]))
      return out
    if not out.ok:
      d = eq.diff(out.pre, out.post)
      if d:
        raise vio(sim, "rejection-left-trace", "; ".join(d[:3]))
      if model is not None:
        sim.count("probe.valid_bundle_rejected")
        if "unknown temporary row id" in str(out.error) and model == "all-temp-ids-known":
          # every negative id in this bundle was created by an earlier action of it (or by the
          # action itself): refusing it says that a temporary id did not stand for its row
          raise vio(sim, "known-temp-id-rejected", "%s raised %s" % (
            json.dumps(ev["a"], default=repr)[:400], str(out.error)[:200]))
      return out
    if model is None:
      return out
    for t, cols in self.COLS.items():
      got = data_rows(sim.sigma, t, cols)
      if set(got) != set(model[t]):
        raise vio(sim, "temp-id-rows", "table %s rows %s, reference interpretation %s" % (
          t, sorted(got), sorted(model[t])))
      for r in got:
        for c in cols:
          if eq.norm(got[r][c]) != eq.norm(model[t][r][c]):
            raise vio(sim, "temp-id-cells", "%s[%s].%s = %r, reference interpretation %r (bundle %s, ret %s)" % (
              t, r, c, got[r][c], model[t][r][c], json.dumps(ev["a"], default=repr)[:300], out.ret))
    sim.count("oracle.temp_ids")
    if any(isinstance(a[2], int) and a[2] < 0 or isinstance(a[2], list) and any(
        isinstance(x, int) and x < 0 for x in a[2]) for a in ev["a"]):
      sim.count("oracle.nontrivial")
      sim.shapes.add(",".join(a[0] + ("-" if (isinstance(a[2], int) and a[2] < 0) else "") for a in ev["a"]))
    return out

  def _interpret(self, pre, acts, ret):
    """Reference interpretation of the bundle. Returns the expected {table: {row: {col: value}}},
    'unknown-temp' if it refers to a negative id nobody created, or None when the outcome is
    outside the model (e.g. the bundle was rejected, so row ids are unknown)."""
    tables = {t: data_rows(pre, t, cols) for t, cols in self.COLS.items()}
    defaults = {"n": 0, "rb": 0, "lb": None, "self": 0, "t": "", "ra": 0}
    targets = {"rb": "B", "lb": "B", "self": "A", "ra": "A"}
    created = {"A": set(), "B": set()}
    # pass 1: which temp ids does the bundle create (in order)?
    unconstrained = False
    known = {"A": set(), "B": set()}
    for a in acts:
      ids = []
      if a[0] == "AddRecord":
        ids = [a[2]]
      elif a[0] == "BulkAddRecord":
        ids = a[2]
      # references inside this action may use ids created by earlier actions or by this one
      cur = {t: set(known[t]) for t in known}
      for x in ids:
        if isinstance(x, int) and x < 0:
          cur[a[1]].add(x)
      def bad_ref(col, v):
        t = targets.get(col)
        if t is None:
          return False
        xs = v[1:] if isinstance(v, list) else [v]
        return any(isinstance(x, int) and x < 0 and x not in cur[t] for x in xs)
      vals = a[3] if len(a) > 3 else {}
      for c, v in vals.items():
        vs = v if a[0].startswith("Bulk") else [v]
        if any(bad_ref(c, x) for x in vs):
          return "unknown-temp"
      if a[0] in ("UpdateRecord", "RemoveRecord") and isinstance(a[2], int) and a[2] < 0 \
          and a[2] not in known[a[1]]:
        # The statement only requires rejection for unknown negative *reference* values; an
        # Update/Remove addressed to an unknown negative row id is not constrained by it.
        unconstrained = True
      for x in ids:
        if isinstance(x, int) and x < 0:
          known[a[1]].add(x)
    if unconstrained:
      return None
    if ret is None:
      return "all-temp-ids-known"     # (rejected: no ids to apply with, but pass 1 found no unknown id)
    # pass 2: apply with the ids the engine returned
    mapping = {"A": {}, "B": {}}
    def res(t, x):
      if isinstance(x, int) and x < 0:
        return mapping[t].get(x, x)
      return x
    def conv(col, v):
      t = targets.get(col)
      if t is None:
        return v
      if isinstance(v, list):
        xs = [res(t, x) for x in v[1:]]
        return xs or None
      return res(t, v)
    pending = []    # (table, row, col, raw value) to resolve after the action's own ids are known
    for a, rv in zip(acts, ret):
      t = a[1]
      if a[0] in ("AddRecord", "BulkAddRecord"):
        ids = [a[2]] if a[0] == "AddRecord" else a[2]
        new = [rv] if a[0] == "AddRecord" else rv
        for x, real in zip(ids, new):
          if isinstance(x, int) and x < 0:
            mapping[t][x] = real
        for k, real in enumerate(new):
          if real in tables[t]:
            return None
          row = dict((c, defaults[c]) for c in self.COLS[t])
          for c, v in a[3].items():
            row[c] = conv(c, v if a[0] == "AddRecord" else v[k])
          tables[t][real] = row
      elif a[0] == "UpdateRecord":
        r = res(t, a[2])
        if r not in tables[t]:
          return None
        for c, v in a[3].items():
          tables[t][r][c] = conv(c, v)
      elif a[0] == "RemoveRecord":
        r = res(t, a[2])
        if r in tables[t]:
          del tables[t][r]
          # references to the removed row are cleaned up (C10)
          for t2, cols in self.COLS.items():
            for r2, row in tables[t2].items():
              for c in cols:
                if targets.get(c) == t:
                  if isinstance(row[c], list):
                    row[c] = [x for x in row[c] if x != r] or None
                  elif row[c] == r:
                    row[c] = 0
    return tables


class C27(HistoryProfile):
  prop = "C27"
  name = "c27"
  technique = ("deterministic simulation: seeded histories of AddRecord/BulkAddRecord/"
               "ReplaceTableData with automatic, negative, explicit, repeated, zero and out-of-range "
               "ids against tables with gaps; reference allocator, no-trace check on rejection")
  max_events = 26

  def config(self, rng, tier):
    return {"max_events": rng.randint(6, self.max_events), "p_undo": 0.06}

  def first_events(self, sim, g, cfg):
    return [{"k": "open"},
            {"k": "bundle", "a": [["AddTable", "R", [{"id": "v", "type": "Int", "isFormula": False}]],
                                  ["AddColumn", "R", "f", {"type": "Any", "isFormula": True,
                                                           "formula": "len(R.all)"}]],
             "ops": ["rowid_schema"]}]

  def next_event(self, sim, g, cfg, st, i):
    rng = g.rng
    if rng.random() < cfg["p_undo"] and sim.ptr > 1:
      return {"k": "undo"}
    dv = DocView(sim.sigma)
    if "R" not in dv.tables:
      return None
    existing = dv.tables["R"].row_ids
    mx = max(existing + [0])
    def one():
      k = rng.random()
      if k < 0.35:
        return None
      if k < 0.5:
        return -rng.randint(1, 3)
      if k < 0.7:
        return mx + rng.randint(1, 4)
      if k < 0.8 and existing:
        return rng.choice(existing)
      if k < 0.85:
        return 0
      if k < 0.92:
        return rng.choice([999999, 1000000, 1000001, 1000002])
      return rng.randint(1, mx + 3)
    r = rng.random()
    if r < 0.15 and existing:
      return {"k": "bundle", "a": [["BulkRemoveRecord", "R", rng.sample(existing, min(len(existing), rng.randint(1, 3)))]],
              "ops": ["remove"]}
    if r < 0.45:
      return {"k": "bundle", "a": [["AddRecord", "R", one(), {"v": rng.randint(0, 9)}]], "ops": ["add1"]}
    n = rng.randint(1, 4)
    ids = [one() for _ in range(n)]
    if rng.random() < 0.2 and n > 1:
      ids[-1] = ids[0]
    vals = {"v": [rng.randint(0, 9) for _ in range(n)]}
    if r < 0.85:
      return {"k": "bundle", "a": [["BulkAddRecord", "R", ids, vals]], "ops": ["bulkadd"]}
    return {"k": "bundle", "a": [["ReplaceTableData", "R", ids, vals]], "ops": ["replace"]}

  def step(self, sim, ev, st):
    out = sim.do(ev)
    for n in ev.get("ops", ()):
      sim.count("op." + n)
    if ev["k"] != "bundle" or out.pre is None or "R" not in out.pre or len(ev["a"]) != 1:
      return out
    a = ev["a"][0]
    if a[0] not in ("AddRecord", "BulkAddRecord", "ReplaceTableData"):
      return out
    replace = a[0] == "ReplaceTableData"
    ids = [a[2]] if a[0] == "AddRecord" else list(a[2])
    existing = set() if replace else set(out.pre["R"][2])
    explicit = [x for x in ids if isinstance(x, int) and x > 0 or x == 0]
    impossible = (any(x in existing for x in explicit) or len(set(explicit)) != len(explicit)
                  or any(x > 1000000 for x in explicit) or any(x == 0 for x in ids if x is not None))
    if impossible:
      if out.ok:
        raise vio(sim, "impossible-request-accepted", "%s with ids %r on rows %s was accepted (returned %r)" % (
          a[0], ids, sorted(existing), out.ret))
      d = eq.diff(out.pre, out.post)
      if d:
        raise vio(sim, "rejection-left-trace", "; ".join(d[:3]))
      sim.count("oracle.rejected")
      sim.count("oracle.nontrivial")
      sim.shapes.add("reject/%s/%s" % (a[0], _id_shape(ids, existing)))
      return out
    if not out.ok:
      # automatic ids could exceed the limit legitimately (explicit id close to 1e6 followed by
      # automatic ones); anything else is a request the property says must succeed
      if any(isinstance(x, int) and x >= 999990 for x in ids):
        sim.count("probe.rejected_near_limit")
        d = eq.diff(out.pre, out.post)
        if d:
          raise vio(sim, "rejection-left-trace", "; ".join(d[:3]))
        return out
      raise vio(sim, "valid-request-rejected", "%s with ids %r on rows %s raised %s" % (
        a[0], ids, sorted(existing), out.error))
    post_rows = set(sim.sigma["R"][2])
    if replace:
      new_rows = sorted(post_rows)
      returned = None
    else:
      returned = [out.ret[0]] if a[0] == "AddRecord" else list(out.ret[0])
      new_rows = sorted(post_rows - existing)
      if sorted(returned) != new_rows or len(set(returned)) != len(returned):
        raise vio(sim, "returned-ids-vs-rows", "%s ids %r: returned %r, new rows %r" % (a[0], ids, returned, new_rows))
      if post_rows != existing | set(returned):
        raise vio(sim, "existing-rows-changed", "rows before %s, after %s, returned %s" % (
          sorted(existing), sorted(post_rows), returned))
      for x, got in zip(ids, returned):
        if isinstance(x, int) and x > 0:
          if got != x:
            raise vio(sim, "explicit-id-not-kept", "requested %r, got %r" % (x, got))
        else:
          if existing and got <= max(existing):
            raise vio(sim, "automatic-id-not-fresh", "automatic id %r is not greater than existing max %r" % (
              got, max(existing)))
    if replace:
      n_expected = len(ids)
      if len(new_rows) != n_expected:
        raise vio(sim, "replace-row-count", "ReplaceTableData ids %r produced rows %r" % (ids, new_rows))
      for x in ids:
        if isinstance(x, int) and x > 0 and x not in post_rows:
          raise vio(sim, "explicit-id-not-kept", "ReplaceTableData: requested %r missing in %r" % (x, new_rows))
    # values landed on the right rows
    vals = a[3].get("v")
    if vals is not None and not replace:
      vs = [vals] if a[0] == "AddRecord" else vals
      cells = dict(zip(sim.sigma["R"][2], sim.sigma["R"][3]["v"]))
      for got, v in zip(returned, vs):
        if cells.get(got) != v:
          raise vio(sim, "value-on-wrong-row", "row %s holds v=%r, requested %r" % (got, cells.get(got), v))
    sim.count("oracle.allocated")
    sim.count("oracle.nontrivial")
    sim.shapes.add("ok/%s/%s" % (a[0], _id_shape(ids, existing)))
    return out


def _id_shape(ids, existing):
  def k(x):
    if x is None:
      return "N"
    if x < 0:
      return "-"
    if x == 0:
      return "0"
    if x > 1000000:
      return "H"
    if x in existing:
      return "E"
    return "x"
  s = "".join(k(x) for x in ids)
  if len(set(x for x in ids if x is not None)) != len([x for x in ids if x is not None]):
    s += "!dup"
  return s


PROFILES = [C09(), C10(), C11(), C12(), C20(), C21(), C31(), C36(), C41(), C26(), C27()]
