"""
Model-based profiles: C13 (lookups), C14 (find.* / PREVIOUS / NEXT / RANK), C16 (renames),
C19 (invalid formulas), C23 (type changes), C28 (upserts), C39 (RenameChoices), C15 (triggers).
Oracles are stateless readers of Sigma: they re-read every formula text the engine currently
stores (fx.py) and evaluate its meaning with reference models (lookupmodel.py).
"""
import ast
import io
import json
import tokenize

from .. import eq, gen, fx, boot
from .. import lookupmodel as lm
from ..docview import DocView
from ..profile import Profile, vio
from ..sim import Sim, Violation, split_reply
from .core import HistoryProfile, check_from_scratch

U = lm.UNCONSTRAINED


# -- reading probe formulas ---------------------------------------------------------------------------

def classify_probe(formula):
  """Recognise the probe shapes of our grammar. Returns (kind, payload) or None."""
  tree = fx.parse(formula)
  if tree is None or len(tree.body) != 1 or not isinstance(tree.body[0], ast.Expr):
    return None
  e = tree.body[0].value
  def as_lookup(call):
    lks = [l for l in fx.find_lookups(ast.Expression(call)) if l.node is call]
    return lks[0] if lks else None
  # [r.id for r in T.lookupRecords(...)]
  if isinstance(e, ast.ListComp) and len(e.generators) == 1 and not e.generators[0].ifs \
      and isinstance(e.elt, ast.Attribute) and e.elt.attr == "id" \
      and isinstance(e.generators[0].iter, ast.Call):
    lk = as_lookup(e.generators[0].iter)
    if lk and lk.method == "lookupRecords":
      return ("ids", lk)
  # len(T.lookupRecords(...))
  if isinstance(e, ast.Call) and isinstance(e.func, ast.Name) and e.func.id == "len" and len(e.args) == 1 \
      and isinstance(e.args[0], ast.Call):
    lk = as_lookup(e.args[0])
    if lk and lk.method == "lookupRecords":
      return ("count", lk)
  if isinstance(e, ast.Attribute) and e.attr == "id" and isinstance(e.value, ast.Call):
    c = e.value
    # T.lookupOne(...).id
    lk = as_lookup(c)
    if lk and lk.method == "lookupOne":
      return ("one", lk)
    # T.lookupRecords(...).find.OP(args).id
    if isinstance(c.func, ast.Attribute) and c.func.attr in ("lt", "le", "gt", "ge", "eq") \
        and isinstance(c.func.value, ast.Attribute) and c.func.value.attr == "find" \
        and isinstance(c.func.value.value, ast.Call):
      lk = as_lookup(c.func.value.value)
      if lk and lk.method == "lookupRecords":
        return ("find", (lk, c.func.attr, c.args))
    # PREVIOUS(rec, ...).id / NEXT(rec, ...).id
    if isinstance(c.func, ast.Name) and c.func.id in ("PREVIOUS", "NEXT"):
      pn = [p for p in fx.find_prevnext(ast.Expression(c)) if p.node is c]
      if pn:
        return ("prevnext", pn[0])
  if isinstance(e, ast.Call) and isinstance(e.func, ast.Name) and e.func.id == "RANK":
    pn = [p for p in fx.find_prevnext(ast.Expression(e)) if p.node is e]
    if pn:
      return ("rank", pn[0])
  return None


def prevnext_rows(snap, dv, p, table_id, row_id):
  """Ordered row ids of the group of row_id for a PREVIOUS/NEXT/RANK call."""
  tv = lm.TableView(snap, dv, table_id)
  gb = p.group_by
  if gb is NotImplemented or p.order_by is NotImplemented:
    return U
  if isinstance(gb, str):
    gb = (gb,)
  gb = tuple(gb or ())
  keys = {}
  for g in gb:
    if not isinstance(g, str) or tv.col_pure(g) is None:
      return U
    v = tv.value(row_id, g)
    if v is U or isinstance(v, eq.Err):
      return U
    v2 = lm.convert_key(tv.col_pure(g), v)
    if v2 is U:
      return U
    if isinstance(v2, tuple) and not (v2 and v2[0] in ("date", "dt")):
      return U
    keys[g] = ("eq", v2)
  spec = lm.parse_spec(p.order_by, None, "manualSort" in tv.t.cols)
  if spec is U:
    return U
  for col, _s in spec:
    if tv.col_pure(col) is None:
      return U
  rows = lm.matching_rows(tv, keys)
  if rows is U:
    return U
  if row_id not in rows:
    return U       # e.g. alt text in a group-by column of this row: equal to nothing
  return lm.order_rows(tv, rows, spec)


def expected_probe_value(snap, dv, table_id, row_id, probe):
  kind, payload = probe
  if kind in ("ids", "count", "one"):
    rows = lm.lookup_result(snap, dv, payload, table_id, row_id)
    if rows is U:
      return U
    if kind == "ids":
      return list(rows)
    if kind == "count":
      return len(rows)
    return rows[0] if rows else 0
  if kind == "find":
    lk, op, args = payload
    rows = lm.lookup_result(snap, dv, lk, table_id, row_id)
    if rows is U:
      return U
    tv = lm.TableView(snap, dv, lk.table)
    own = tv if lk.table == table_id else lm.TableView(snap, dv, table_id)
    spec = lm.parse_spec(lk.order_by, lk.sort_by, "manualSort" in tv.t.cols)
    if spec is U or not args or len(args) > len(spec):
      return U
    values = []
    for a in args:
      k = lm.eval_key_expr(a, own, row_id)
      if k is U or k[0] != "eq":
        return U
      values.append(k[1])
    cmps = []
    for r in rows:
      c = lm.cmp_values(tv, r, spec, values)
      if c is U:
        return U
      cmps.append(c)
    # linear scan of the ordered result
    if op == "lt":
      cand = [r for r, c in zip(rows, cmps) if c < 0]
      return cand[-1] if cand else 0
    if op == "le":
      cand = [r for r, c in zip(rows, cmps) if c <= 0]
      return cand[-1] if cand else 0
    if op == "gt":
      cand = [r for r, c in zip(rows, cmps) if c > 0]
      return cand[0] if cand else 0
    if op == "ge":
      cand = [r for r, c in zip(rows, cmps) if c >= 0]
      return cand[0] if cand else 0
    cand = [r for r, c in zip(rows, cmps) if c == 0]
    return cand[0] if cand else 0
  if kind in ("prevnext", "rank"):
    p = payload
    rows = prevnext_rows(snap, dv, p, table_id, row_id)
    if rows is U:
      return U
    i = rows.index(row_id)
    if kind == "rank":
      if p.order == "asc":
        return i + 1
      if p.order == "desc":
        return len(rows) - i
      return U
    if p.func == "PREVIOUS":
      return rows[i - 1] if i > 0 else 0
    return rows[i + 1] if i + 1 < len(rows) else 0
  return U


def check_probes(sim, snap, prop, kinds, oracle_name):
  """Compare every probe formula column of the given kinds with the reference model."""
  dv = DocView(snap)
  n_checked = 0
  n_unconstrained = 0
  for t in dv.user_tables():
    for c in t.cols.values():
      if not (c.isFormula and c.formula) or c.pure != "Any":
        continue      # a typed formula column converts the result (C22/C23 territory)
      probe = classify_probe(c.formula)
      if probe is None or probe[0] not in kinds:
        continue
      cells = eq.rows_of(snap[t.tableId])
      for r in sorted(cells):
        exp = expected_probe_value(snap, dv, t.tableId, r, probe)
        if exp is U:
          n_unconstrained += 1
          continue
        got = cells[r].get(c.colId)
        if isinstance(got, eq.Err) or eq.norm(got) != eq.norm(exp):
          raise vio(sim, oracle_name, "%s[%s].%s = %r but the reference model of `%s` gives %r" % (
            t.tableId, r, c.colId, got, c.formula, exp), prop)
        n_checked += 1
        sim.count("probe.kind_" + probe[0])
  return n_checked, n_unconstrained


class LookupProfile(HistoryProfile):
  kinds = ()
  oracle_name = "lookup"
  formula_kinds = ()
  p_undo = 0.06
  p_redo_after_undo = 0.5
  p_restart = 0.02
  max_events = 36

  def base_weights(self):
    w = dict(gen.DEFAULT_WEIGHTS)
    w.update({"add_formula_column": 22, "modify_formula": 6, "update_records": 26, "add_records": 12,
              "remove_records": 10, "add_data_column": 8, "position_edit": 6, "modify_type": 2,
              "rename_column": 2, "rename_table": 1, "add_summary": 0, "update_summary": 0,
              "detach_summary": 0, "add_summary_formula": 0, "duplicate_table": 1})
    return w

  def config(self, rng, tier):
    cfg = super(LookupProfile, self).config(rng, tier)
    cfg["weights"] = gen.swarm_weights(rng, self.base_weights(),
                                       keep=("add_records", "update_records", "add_table",
                                             "add_formula_column", "add_data_column"))
    cfg["formula_kinds"] = list(self.formula_kinds)
    cfg["rich_specs"] = True
    cfg["none_p"] = rng.choice([0.0, 0.05])
    cfg["alt_text_p"] = rng.choice([0.0, 0.03])
    cfg["max_rows"] = rng.choice([6, 10, 14])
    cfg["blank_sort_p"] = rng.choice([0.0, 0.1, 0.25])
    cfg["alt_sort_p"] = rng.choice([0.0, 0.0, 0.1, 0.2])
    return cfg

  def check(self, sim, out, st):
    if not out.ok or out.ev["k"] not in ("bundle", "undo", "redo", "restart"):
      return
    from . import scans      # registers position_edit
    n, u = check_probes(sim, sim.sigma, self.prop, self.kinds, self.oracle_name)
    sim.count("oracle." + self.oracle_name, n)
    sim.count("probe.unconstrained_cells", u)
    if n and (out.stored or out.ev["k"] == "restart"):
      sim.count("oracle.nontrivial")
      sim.shapes.add("%s/%s" % (self.shape(sim), ",".join(out.ev.get("ops", ()))))

  def rule_text(self):
    return (super(LookupProfile, self).rule_text() + "; the oracle is evaluated for every probe "
            "formula cell whose situation is inside the property's precondition (comparable sort "
            "values, no NaN/alt-text keys); others are counted as unconstrained")


class C13(LookupProfile):
  prop = "C13"
  name = "c13"
  kinds = ("ids", "count", "one")
  oracle_name = "lookup"
  formula_kinds = ("lookup", "lookup", "lookupone", "count", "contains", "contains", "arith", "str")
  technique = ("deterministic simulation: lookup probe formulas kept alive through seeded histories "
               "that hammer the index (key/sort/list edits, row add/remove/re-add, manualSort moves, "
               "undo/redo, restarts); naive filter + sort of Sigma as the reference")


class C14(LookupProfile):
  prop = "C14"
  name = "c14"
  kinds = ("find", "prevnext", "rank")
  oracle_name = "sorted_search"
  formula_kinds = ("find", "find", "prevnext", "prevnext", "prevnext", "lookup", "arith")
  technique = ("deterministic simulation: find.*/PREVIOUS/NEXT/RANK probe formulas evaluated "
               "incrementally over cached sorted lookup results through seeded edit histories "
               "(duplicates, descending specs, group_by); linear scan of the reference order")

  def config(self, rng, tier):
    cfg = super(C14, self).config(rng, tier)
    cfg["max_rows"] = rng.choice([6, 10, 16])
    return cfg


# -- C39 ------------------------------------------------------------------------------------------

class C39(HistoryProfile):
  prop = "C39"
  name = "c39"
  technique = ("deterministic simulation: RenameChoices with seeded maps (swaps, chains, unknown and "
               "empty choices) against Choice / Choice List columns and saved filters that have lived "
               "through a history of edits, removals and undo; reference simultaneous rename of Sigma")
  max_events = 26
  POOL = ["a", "b", "c", "d", "", "a b", "é"]

  def config(self, rng, tier):
    return {"max_events": rng.randint(6, self.max_events), "p_undo": 0.06}

  def first_events(self, sim, g, cfg):
    ch = json.dumps({"choices": ["a", "b", "c"]})
    return [{"k": "open"},
            {"k": "bundle", "ops": ["choice_schema"], "a": [
              ["AddTable", "K", [{"id": "ch", "type": "Choice", "isFormula": False, "widgetOptions": ch},
                                 {"id": "cl", "type": "ChoiceList", "isFormula": False, "widgetOptions": ch},
                                 {"id": "other", "type": "Choice", "isFormula": False, "widgetOptions": ch},
                                 {"id": "txt", "type": "Text", "isFormula": False},
                                 {"id": "f", "type": "Any", "isFormula": True,
                                  "formula": "str($ch) + '/' + ','.join($cl)"}]],
              ["BulkAddRecord", "K", [None] * 4, {"ch": ["a", "b", "", "c"],
                                                  "cl": [["L", "a", "b"], None, ["L", "c"], ["L", "b", "a", "c"]],
                                                  "other": ["a", "b", "c", "a"], "txt": ["a", "b", "c", "d"]}]]}]

  def _choice(self, rng):
    return rng.choice(self.POOL)

  def next_event(self, sim, g, cfg, st, i):
    rng = g.rng
    dv = DocView(sim.sigma)
    t = dv.tables.get("K")
    if t is None:
      return None
    r = rng.random()
    if r < cfg["p_undo"] and sim.ptr > 1:
      return {"k": "undo"}
    if r < 0.4:
      col = rng.choice(["ch", "cl", "other"])
      n = rng.randint(0, 4)
      keys = rng.sample(self.POOL + ["zz"], n)
      shape = rng.random()
      if shape < 0.3 and n >= 2:
        vals = keys[1:] + keys[:1]            # a permutation: swaps / cycles
      else:
        vals = [rng.choice(self.POOL + ["new", "new2"]) for _ in keys]
      return {"k": "bundle", "a": [["RenameChoices", "K", col, dict(zip(keys, vals))]], "ops": ["rename_choices"]}
    if r < 0.55:
      col = t.cols.get(rng.choice(["ch", "cl", "other", "txt"]))
      secs = [s for s, rec in dv.records("_grist_Views_section") if rec["tableRef"] == t.ref]
      if col is None or not secs:
        return {"k": "bundle", "a": [["Calculate"]], "ops": ["noop"]}
      kind = rng.choice(["included", "excluded"])
      vals = [rng.choice(self.POOL + [1, None, True]) for _ in range(rng.randint(0, 3))]
      filt = rng.choice([json.dumps({kind: vals}), "", json.dumps({kind: vals})])
      return {"k": "bundle", "a": [["AddRecord", "_grist_Filters", None,
                                    {"viewSectionRef": rng.choice(secs), "colRef": col.ref, "filter": filt}]],
              "ops": ["add_filter"]}
    rows = t.row_ids
    if r < 0.7 or not rows:
      return {"k": "bundle", "a": [["AddRecord", "K", None, {
        "ch": rng.choice(self.POOL + [None, 5]), "cl": rng.choice([None, ["L", self._choice(rng)],
                                                                   ["L", self._choice(rng), self._choice(rng)], "alt"]),
        "other": self._choice(rng)}]], "ops": ["add_row"]}
    if r < 0.85:
      return {"k": "bundle", "a": [["UpdateRecord", "K", rng.choice(rows), {
        rng.choice(["ch", "other"]): self._choice(rng)}]], "ops": ["update_row"]}
    return {"k": "bundle", "a": [["RemoveRecord", "K", rng.choice(rows)]], "ops": ["remove_row"]}

  def check(self, sim, out, st):
    ev = out.ev
    if ev["k"] != "bundle" or "rename_choices" not in ev.get("ops", ()) or out.pre is None:
      return
    a = ev["a"][0]
    _n, tid, cid, renames = a
    pre, post = out.pre, sim.sigma
    if tid not in pre or cid not in pre[tid][3]:
      return
    if not out.ok:
      # A rename map is always a valid request on an existing Choice/ChoiceList column.
      d = eq.diff(pre, post)
      if d:
        raise vio(sim, "rejection-left-trace", "; ".join(d[:3]))
      raise vio(sim, "rename-choices-raised", "RenameChoices(%s.%s, %r) raised %s" % (tid, cid, renames, out.error))
    dvp = DocView(pre)
    col = dvp.tables[tid].cols[cid]
    def ren(v):
      return renames.get(v, v) if isinstance(v, str) else v
    expected = {}
    for r, v in zip(pre[tid][2], pre[tid][3][cid]):
      if col.pure == "Choice":
        expected[r] = ren(v) if isinstance(v, str) else v
      else:
        if isinstance(v, list) and v and v[0] == "L":
          expected[r] = ["L"] + [ren(x) for x in v[1:]]
        else:
          expected[r] = v
    got = dict(zip(post[tid][2], post[tid][3][cid]))
    for r in expected:
      if eq.norm(got.get(r)) != eq.norm(expected[r]):
        raise vio(sim, "renamed-cells", "%s[%s].%s was %r, map %r: now %r, expected %r" % (
          tid, r, cid, dict(zip(pre[tid][2], pre[tid][3][cid]))[r], renames, got.get(r), expected[r]))
    # filters of that column
    pf = eq.raw_rows_of(pre["_grist_Filters"])
    qf = eq.raw_rows_of(post["_grist_Filters"])
    if set(pf) != set(qf):
      raise vio(sim, "filters-rows-changed", "%s -> %s" % (sorted(pf), sorted(qf)))
    for r, rec in pf.items():
      text = rec["filter"]
      exp_text = text
      if rec["colRef"] == col.ref and text:
        try:
          spec = json.loads(text)
          new = {k: ([ren(x) for x in v] if isinstance(v, list) else v) for k, v in spec.items()}
          exp = new
        except ValueError:
          exp = None
        if exp is not None:
          try:
            now = json.loads(qf[r]["filter"])
          except ValueError:
            raise vio(sim, "filter-not-json", "filter %s became %r" % (r, qf[r]["filter"]))
          if now != exp:
            raise vio(sim, "renamed-filter", "filter %s of %s.%s was %s, map %r: now %s, expected %s" % (
              r, tid, cid, text, renames, qf[r]["filter"], json.dumps(exp)))
          continue
      if qf[r]["filter"] != exp_text:
        raise vio(sim, "other-filter-changed", "filter %s (colRef %s) changed from %r to %r" % (
          r, rec["colRef"], text, qf[r]["filter"]))
    # frame: nothing else changed (formula columns may follow the renamed column)
    ign = {tid: [cid] + [c.colId for c in dvp.tables[tid].cols.values() if c.isFormula],
           "_grist_Filters": ["filter"]}
    d = eq.diff(pre, post, ignore_cols=ign)
    if d:
      raise vio(sim, "frame", "RenameChoices(%s.%s) also changed: %s" % (tid, cid, "; ".join(d[:3])))
    sim.count("oracle.rename_choices")
    if out.stored:
      sim.count("oracle.nontrivial")
      sim.shapes.add("%s/%s/%s" % (col.pure, sorted(renames.items()), len(pf)))


# -- C28 ------------------------------------------------------------------------------------------

ANY_VALUE = object()


class C28(HistoryProfile):
  prop = "C28"
  name = "c28"
  technique = ("deterministic simulation: upserts with seeded require/col_values/options against a "
               "table whose lookup index has lived through a history of edits, removals, undo and "
               "restarts; reference upsert over the pre-state")
  max_events = 28
  KEYS = {"k1": [0, 1, 2, 3], "k2": ["", "a", "b"]}
  VALS = {"v": [0, 5, 7, 9], "w": ["", "x", "y"]}

  def config(self, rng, tier):
    return {"max_events": rng.randint(8, self.max_events), "p_undo": 0.05, "p_restart": 0.04}

  def first_events(self, sim, g, cfg):
    return [{"k": "open"},
            {"k": "bundle", "ops": ["upsert_schema"], "a": [
              ["AddTable", "U", [{"id": "k1", "type": "Int", "isFormula": False},
                                 {"id": "k2", "type": "Text", "isFormula": False},
                                 {"id": "v", "type": "Int", "isFormula": False},
                                 {"id": "w", "type": "Text", "isFormula": False},
                                 {"id": "f", "type": "Any", "isFormula": True,
                                  "formula": "len(U.lookupRecords(k1=$k1))"},
                                 # an "empty column", as the Grist client creates them: it turns
                                 # into a data column with the first value written to it
                                 {"id": "e", "type": "Any", "isFormula": True, "formula": ""}]],
              ["BulkAddRecord", "U", [None] * 4, {"k1": [1, 1, 2, 3], "k2": ["a", "b", "a", ""],
                                                  "v": [5, 5, 7, 0]}]]}]

  def next_event(self, sim, g, cfg, st, i):
    rng = g.rng
    dv = DocView(sim.sigma)
    t = dv.tables.get("U")
    if t is None:
      return None
    r = rng.random()
    if r < cfg["p_undo"] and sim.ptr > 1:
      return {"k": "undo"}
    if r < cfg["p_undo"] + cfg["p_restart"]:
      return {"k": "restart", "mode": "reported"}
    rows = t.row_ids
    if r < 0.25:
      k = rng.random()
      if k < 0.4 or not rows:
        return {"k": "bundle", "ops": ["add_row"], "a": [["AddRecord", "U", None, {
          "k1": rng.choice(self.KEYS["k1"]), "k2": rng.choice(self.KEYS["k2"]), "v": rng.choice(self.VALS["v"])}]]}
      if k < 0.75:
        return {"k": "bundle", "ops": ["update_row"], "a": [["UpdateRecord", "U", rng.choice(rows), {
          rng.choice(["k1"]): rng.choice(self.KEYS["k1"]), "k2": rng.choice(self.KEYS["k2"])}]]}
      return {"k": "bundle", "ops": ["remove_row"], "a": [["RemoveRecord", "U", rng.choice(rows)]]}
    # an upsert
    n = rng.choice([1, 1, 2, 3])
    rcols = rng.choice([["k1"], ["k2"], ["k1", "k2"], [], ["k1", "k2"], ["f"], ["id"], ["e"], ["k1", "e"]])
    vcols = rng.choice([["v"], ["w"], ["v", "w"], [], ["v"], ["k2", "v"], ["e"]])
    vcols = [c for c in vcols if c not in rcols]
    require = {c: [self._val(rng, c, rows) for _ in range(n)] for c in rcols}
    if n >= 2 and "k1" in require and rng.random() < 0.25:
      # the same key spelled as int and as float (and bool): equal values, one key
      v = require["k1"][0]
      require["k1"][1] = rng.choice([float(v), v, bool(v) if v in (0, 1) else float(v)])
      for c in rcols:
        if c != "k1":
          require[c][1] = require[c][0]
    values = {c: [self._val(rng, c, rows) for _ in range(n)] for c in vcols}
    opts = {}
    if rng.random() < 0.4:
      opts["on_many"] = rng.choice(["first", "none", "all", "all", "bogus"])
    if rng.random() < 0.25:
      opts["update"] = rng.random() < 0.5
    if rng.random() < 0.25:
      opts["add"] = rng.random() < 0.5
    if not rcols and rng.random() < 0.6:
      opts["allow_empty_require"] = True
    if rng.random() < 0.08 and values:
      c = rng.choice(list(values))
      values[c] = values[c] + [self._val(rng, c, rows)]     # mismatched lengths
    if n == 1 and rng.random() < 0.5:
      return {"k": "bundle", "ops": ["upsert1"], "a": [["AddOrUpdateRecord", "U",
              {c: v[0] for c, v in require.items()}, {c: v[0] for c, v in values.items() if len(v) == 1}, opts]]}
    return {"k": "bundle", "ops": ["upsert"], "a": [["BulkAddOrUpdateRecord", "U", require, values, opts]]}

  def _val(self, rng, c, rows):
    if c in self.KEYS:
      return rng.choice(self.KEYS[c])
    if c in self.VALS:
      return rng.choice(self.VALS[c])
    if c == "id":
      return rng.choice((rows or [1]) + [99])
    return rng.choice([0, 1, 2])

  def check(self, sim, out, st):
    ev = out.ev
    if ev["k"] != "bundle" or not (set(ev.get("ops", ())) & {"upsert", "upsert1"}) or out.pre is None:
      return
    a = ev["a"][0]
    single = a[0] == "AddOrUpdateRecord"
    _n, tid, require, values, opts = a
    pre, post = out.pre, sim.sigma
    if tid not in pre:
      return
    if single:
      require = {k: [v] for k, v in require.items()}
      values = {k: [v] for k, v in values.items()}
    model = self._model(pre, require, values, opts, single)
    if model == "invalid":
      if out.ok:
        raise vio(sim, "invalid-upsert-accepted", "%s accepted: %s" % (a[0], json.dumps(a, default=repr)[:300]))
      d = eq.diff(pre, post)
      if d:
        raise vio(sim, "rejection-left-trace", "; ".join(d[:3]))
      sim.count("oracle.upsert_rejected")
      sim.count("oracle.nontrivial")
      sim.shapes.add("invalid/%s/%s" % (sorted(require), sorted(opts.items())))
      return
    if model is None:
      sim.count("probe.upsert_outside_model")
      if not out.ok:
        d = eq.diff(pre, post)
        if d:
          raise vio(sim, "rejection-left-trace", "; ".join(d[:3]))
      return
    if not out.ok:
      raise vio(sim, "valid-upsert-rejected", "%s raised %s: %s" % (a[0], out.error, json.dumps(a, default=repr)[:300]))
    exp_rows, exp_ret, n_add = model
    cols = ["k1", "k2", "v", "w", "e"]
    got = {r: {c: post[tid][3][c][i] for c in cols} for i, r in enumerate(post[tid][2])}
    pre_ids = set(pre[tid][2])
    new_ids = sorted(set(got) - pre_ids)
    if len(new_ids) != n_add or (pre_ids - set(got)):
      raise vio(sim, "upsert-rows", "expected %d new rows, got %s (removed: %s)" % (
        n_add, new_ids, sorted(pre_ids - set(got))))
    # map the model's placeholder ids (-1, -2, ...) to the new row ids in order
    mapping = {-(i + 1): r for i, r in enumerate(new_ids)}
    for r, rec in exp_rows.items():
      rr = mapping.get(r, r)
      for c in cols:
        if rec[c] is ANY_VALUE:
          continue
        if eq.norm(got[rr][c]) != eq.norm(rec[c]):
          raise vio(sim, "upsert-cells", "U[%s].%s = %r, reference upsert gives %r (%s)" % (
            rr, c, got[rr][c], rec[c], json.dumps(a, default=repr)[:300]))
    ret = out.ret[0]
    exp_ids = [[mapping.get(x, x) for x in ids] for ids in exp_ret]
    if single:
      want_ids = exp_ids[0] if exp_ids else []
      got_ids = ret.get("recordIds")
      action = ret.get("action")
      want_action = "NONE" if not want_ids else ("ADD" if want_ids[0] in new_ids else "UPDATE")
      if list(got_ids or []) != list(want_ids) or action != want_action:
        raise vio(sim, "upsert-return", "returned %r, reference %r/%s (%s)" % (
          ret, want_ids, want_action, json.dumps(a, default=repr)[:300]))
    else:
      if [list(x or []) for x in ret.get("recordIds", [])] != exp_ids and (require or values):
        raise vio(sim, "upsert-return", "returned recordIds %r, reference %r (%s)" % (
          ret.get("recordIds"), exp_ids, json.dumps(a, default=repr)[:300]))
    sim.count("oracle.upsert")
    sim.count("oracle.nontrivial")
    sim.shapes.add("%s/%s/%s/add%d" % (sorted(require), sorted(values), sorted(opts.items()), n_add))

  def _model(self, pre, require, values, opts, single):
    """Reference upsert. Returns 'invalid', None (outside the model), or
    (expected rows {id or -k: cells}, expected recordIds per input row, number of added rows)."""
    if single and not require and not values:
      return None          # the single-record form answers NONE before looking at the options
    on_many = opts.get("on_many", "first")
    if on_many not in ("first", "none", "all"):
      return "invalid"
    if not require and not opts.get("allow_empty_require", False):
      return "invalid"
    if not require and not values:
      return None
    if not require and any(len(v) > 1 for v in values.values()):
      return None          # several input rows that all match every record: order of writes undefined
    lengths = set(len(v) for v in list(require.values()) + list(values.values()))
    if len(lengths) != 1:
      return "invalid"
    n = lengths.pop()
    if require:
      tuples = list(zip(*[require[c] for c in sorted(require)]))
      try:
        if len(set(tuples)) < n:
          return "invalid"
      except TypeError:
        return None
    if "f" in require or "id" in require or "id" in values:
      return None          # formula / id keys: not modelled
    dv = DocView(pre)
    tv = lm.TableView(pre, dv, "U")
    cols = ["k1", "k2", "v", "w", "e"]
    rows = {r: {c: pre["U"][3][c][i] for c in cols} for i, r in enumerate(pre["U"][2])}
    do_update = opts.get("update", True)
    do_add = opts.get("add", True)
    ret = []
    adds = []
    updates = []
    for i in range(n):
      keys = {}
      for c in require:
        if c == "e" and tv.col_pure(c) == "Any":
          v = require[c][i]          # Any converts nothing (the pool for `e` is small ints)
        else:
          v = lm.convert_key(tv.col_pure(c), lm.rich(tv.col_pure(c), require[c][i]))
        if v is U:
          return None
        keys[c] = ("eq", v)
      match = lm.matching_rows(tv, keys)
      if match is U:
        return None
      ids = []
      if not match and do_add:
        rec = {c: require[c][i] for c in require}
        rec.update({c: values[c][i] for c in values})
        adds.append(rec)
        ids = [-len(adds)]
      if match and do_update:
        if len(match) > 1 and on_many == "first":
          match = match[:1]
        elif len(match) > 1 and on_many == "none":
          match = []
        for r in match:
          updates.append((r, {c: values[c][i] for c in values}))
        ids = list(match) if match else ids
      ret.append(ids)
    # (the empty column has no default until its first value gives it a type)
    ecol = dv.tables["U"].cols.get("e")
    edef = None
    if ecol is not None and not ecol.isFormula:
      edef = {"Numeric": 0.0, "Int": 0, "Text": "", "Bool": False}.get(ecol.pure)
    defaults = {"k1": 0, "k2": "", "v": 0, "w": "", "e": edef}
    if ecol is not None and ecol.isFormula and ("e" in require or "e" in values) and (adds or updates):
      # This action gives the empty column its type (guessed by the Node side from the values);
      # cells it does not write get that type's default, which is not modelled.
      for rec in rows.values():
        rec["e"] = ANY_VALUE
      defaults["e"] = ANY_VALUE
    for k, rec in enumerate(adds):
      rows[-(k + 1)] = dict(defaults, **rec)
    for r, vals in updates:
      rows[r].update(vals)
    return rows, ret, len(adds)


# -- C23 ------------------------------------------------------------------------------------------

ALL_TYPES = ["Int", "Numeric", "Text", "Bool", "Choice", "ChoiceList", "Date", "DateTime:UTC",
             "DateTime:America/New_York", "Any"]
UNION_POOL = [0, 1, -1, 2.5, 1e10, "", "a", "abc", "1", "2.5", "true", "2020-01-02", None, True, False,
              ["L", "a", "b"], ["L"], ["L", 1, 2], 1577923200, 86400.5, "1e3", " 7 ", "é", "[1, 2]",
              '["a"]', "0", "no", 10 ** 12,
              # the same number as int and as float: equal, hash alike, convert differently
              1.0, 2, 2.0, 3, 3.0, float("nan"), "nan", float("inf")]


def op_modify_type_any(g, dv, protected):
  rng = g.rng
  cands = [(t, c) for t in gen.data_tables(dv) for c in t.user_cols()
           if not c.isFormula and not c.formula and (t.tableId, c.colId) not in protected
           and not c.reverseCol and not c.summarySourceCol and c.pure not in ("ManualSortPos",)]
  if not cands:
    return None
  t, c = rng.choice(cands)
  types = list(ALL_TYPES) + ["Any", "Any", "Any"]
  for o in gen.data_tables(dv):
    types += ["Ref:" + o.tableId, "RefList:" + o.tableId]
  new = rng.choice([x for x in types if x != c.type])
  info = {"type": new}
  if new in ("Choice", "ChoiceList"):
    info["widgetOptions"] = json.dumps({"choices": gen.CHOICES})
  return [["ModifyColumn", t.tableId, c.colId, info]]


def op_union_values(g, dv, protected):
  """Write values from the union pool (any type into any data column)."""
  rng = g.rng
  ts = [t for t in gen.data_tables(dv) if t.row_ids]
  if not ts:
    return None
  t = rng.choice(ts)
  cols = [c for c in gen.writable_cols(dv, t) if (t.tableId, c.colId) not in protected and not c.reverseCol]
  if not cols:
    return None
  c = rng.choice(cols)
  rows = rng.sample(t.row_ids, min(len(t.row_ids), rng.randint(1, 4)))
  vals = [rng.choice(UNION_POOL) for _ in rows]
  if len(rows) >= 2 and rng.random() < 0.25:
    # the same number as int and as float in two rows of one column (they stay apart only in an
    # Any column; typed columns normalise one of them on the way in)
    n = rng.choice([1, 2, 3, 7])
    vals[:2] = rng.sample([n, float(n)], 2)
  return [["BulkUpdateRecord", t.tableId, rows, {c.colId: vals}]]


gen.OPS["modify_type_any"] = op_modify_type_any
gen.OPS["union_values"] = op_union_values


class C23(HistoryProfile):
  prop = "C23"
  name = "c23"
  technique = ("deterministic simulation: ModifyColumn{type} over all type pairs (incl. Ref/RefList "
               "targets) on columns whose contents come from a cross-type pool and a history of edits; "
               "per-cell conversion step relation plus frame condition on every other data cell")
  max_events = 30
  p_undo = 0.05
  p_redo_after_undo = 0.5

  def base_weights(self):
    w = dict(gen.DEFAULT_WEIGHTS)
    w.update({"modify_type_any": 30, "union_values": 20, "modify_type": 0, "add_data_column": 8,
              "add_formula_column": 4, "add_summary": 2, "add_reverse": 1})
    return w

  def config(self, rng, tier):
    cfg = super(C23, self).config(rng, tier)
    cfg["weights"] = gen.swarm_weights(rng, self.base_weights(),
                                       keep=("add_records", "update_records", "add_table",
                                             "modify_type_any", "union_values"))
    return cfg

  def check(self, sim, out, st):
    ev = out.ev
    if ev["k"] != "bundle" or not out.ok or out.pre is None:
      return
    acts = ev.get("a", [])
    if len(acts) != 1 or acts[0][0] != "ModifyColumn" or set(acts[0][3]) - {"type", "widgetOptions"} \
        or "type" not in acts[0][3]:
      return
    import objtypes
    import usertypes
    _n, tid, cid, info = acts[0]
    pre, post = out.pre, sim.sigma
    dvp = DocView(pre)
    t = dvp.tables.get(tid)
    if t is None or cid not in t.cols or tid not in post:
      return
    col = t.cols[cid]
    if col.isFormula or col.formula:
      return
    new_type = info["type"]
    # the new type's own conversion function (its totality/idempotence is C22's subject), read
    # from the column object the engine now has
    try:
      col_obj = sim.primary.engine.tables[tid].get_column(cid)
    except KeyError:
      return
    pre_cells = dict(zip(pre[tid][2], pre[tid][3][cid]))
    post_cells = dict(zip(post[tid][2], post[tid][3].get(cid, [])))
    for r, v in pre_cells.items():
      dec = objtypes.decode_object(v)
      try:
        if "'U'" in repr(v) or eq.norm(objtypes.encode_object(dec)) != eq.norm(v):
          sim.count("probe.cell_not_reconstructible")
          continue        # e.g. ['U', ...]: what travelled is not the stored Python value
      except Exception:   # pylint: disable=broad-except
        continue
      # A list may be stored as a list or as a tuple depending on the column kind it lived in;
      # the conversion of either stored form is accepted.
      forms = [dec]
      if isinstance(dec, list):
        forms.append(tuple(dec))
      exps = [objtypes.encode_object(col_obj.convert(f)) for f in forms]
      # What any write into a column of the new type goes through when it is stored (reference
      # columns re-read a serialised list of row ids left by an earlier type change): this is
      # the column's storage rule, not part of the conversion.
      clean = getattr(col_obj, "_clean_up_value", None)
      if clean is not None:
        exps += [objtypes.encode_object(clean(col_obj.convert(f))) for f in forms]
      got = post_cells.get(r)
      if not any(eq.norm(got) == eq.norm(e) for e in exps):
        raise vio(sim, "converted-cell", "%s[%s].%s: %r (%s) -> %s gives %r, conversion of the stored "
                  "value gives %r" % (tid, r, cid, v, col.type, new_type, got, exps[0]))
    # frame: no other data cell of an ordinary table changes
    dvq = DocView(post)
    ign = {}
    for t2 in dvq.tables.values():
      cols = [c.colId for c in t2.cols.values() if c.isFormula]
      if t2.is_summary:
        ign[t2.tableId] = list(t2.cols.keys()) + ["manualSort"]
        continue
      if t2.tableId == tid:
        cols.append(cid)
      # display/rule helper columns come and go with the column's type (formula helpers)
      pre_t = dvp.tables.get(t2.tableId)
      cols += [c.colId for c in (list(pre_t.cols.values()) if pre_t else [])
               if c.colId.startswith("gristHelper_") or c.isFormula]
      ign[t2.tableId] = cols
    d = eq.diff(pre, post, ignore_cols=ign,
                tables=[x.tableId for x in dvq.tables.values() if x.tableId in pre])
    d = [x for x in d if "summary" not in x]
    if d:
      raise vio(sim, "frame", "ModifyColumn(%s.%s -> %s) also changed: %s" % (tid, cid, new_type, "; ".join(d[:3])))
    sim.count("oracle.type_change")
    sim.count("oracle.nontrivial")
    sim.shapes.add("%s->%s/%s" % (col.type.split(":")[0], new_type.split(":")[0],
                                  sorted(set(type(x).__name__ for x in pre_cells.values()))))


# -- C16 ------------------------------------------------------------------------------------------

RENAME_TARGETS = ["class", "1abc", "a b", "é", "Ünï", "名前", "", "Alpha", "id", "a-b",
                  "x" * 40, "def", "if", "New Name", "total", "Total", "TOTAL", "lookupRecords", "rec",
                  "table", "value", "$x", "a.b", "None", "_priv", "sum", "len"]
# Not in the pool: "SUM", "Record", ... -- a table renamed to the name of a formula function
# shadows it in the generated module (finding F-y); "group"/"count" -- a source column with the id
# of a summary helper column drags that helper along when renamed (finding F-x).

import re as _re
_TOKEN = _re.compile(r"""\$?[A-Za-z_]\w*|"(?:[^"\\]|\\.)*"|'(?:[^'\\]|\\.)*'|\s+|.""", _re.S)


def op_rename_any(g, dv, protected):
  """Rename a column or table by any of the rename paths, to a fresh or a hostile name."""
  rng = g.rng
  tables = gen.data_tables(dv)
  if not tables:
    return None
  t = rng.choice(tables)
  hostile = rng.random() < 0.45
  if rng.random() < 0.3:
    new = rng.choice(RENAME_TARGETS) if hostile else g.new_table_id()
    path = rng.random()
    if path < 0.5:
      return [["RenameTable", t.tableId, new]]
    if path < 0.75:
      return [["UpdateRecord", "_grist_Tables", t.ref, {"tableId": new}]]
    if t.rawSection:
      return [["UpdateRecord", "_grist_Views_section", t.rawSection, {"title": new}]]
    return [["RenameTable", t.tableId, new]]
  cols = [c for c in t.user_cols() if not c.summarySourceCol]
  if not cols:
    return None
  c = rng.choice(cols)
  new = rng.choice(RENAME_TARGETS) if hostile else g.new_col_id("r")
  path = rng.random()
  if path < 0.4:
    return [["RenameColumn", t.tableId, c.colId, new]]
  if path < 0.6:
    return [["UpdateRecord", "_grist_Tables_column", c.ref, {"colId": new}]]
  if path < 0.8 and not c.untie:
    return [["UpdateRecord", "_grist_Tables_column", c.ref, {"label": new}]]
  if path < 0.9 and not c.untie:
    return [["ModifyColumn", t.tableId, c.colId, {"label": new}]]
  return [["ModifyColumn", t.tableId, c.colId, {"colId": new}]] if False else \
         [["RenameColumn", t.tableId, c.colId, new]]


gen.OPS["rename_any"] = op_rename_any


class C16(HistoryProfile):
  prop = "C16"
  name = "c16"
  technique = ("deterministic simulation: documents whose formulas use every supported reference "
               "form, renamed by every rename path to fresh and hostile names through seeded histories "
               "(with undo/redo); formula values keyed through the rename, and a token diff of the text")
  max_events = 34
  p_undo = 0.08
  p_redo_after_undo = 0.6

  def base_weights(self):
    w = dict(gen.DEFAULT_WEIGHTS)
    w.update({"rename_any": 40, "rename_column": 0, "rename_table": 0, "add_formula_column": 24,
              "remove_column": 0, "remove_table": 0, "modify_type": 0, "toggle_formula": 0,
              "add_summary": 4, "add_summary_formula": 3, "update_summary": 1, "detach_summary": 0,
              "add_data_column": 8, "update_records": 8, "add_records": 6, "remove_records": 2,
              "duplicate_table": 1, "display_formula": 2, "trigger_column": 1, "modify_formula": 4})
    return w

  def config(self, rng, tier):
    cfg = super(C16, self).config(rng, tier)
    cfg["weights"] = gen.swarm_weights(rng, self.base_weights(),
                                       keep=("add_records", "add_table", "add_formula_column",
                                             "rename_any", "add_data_column"), p_off=0.3)
    cfg["formula_kinds"] = ["arith", "str", "ref", "reflist", "lookup", "lookupone", "count", "all",
                            "contains", "find", "prevnext", "prevnext", "lookup", "lazy", "lazy",
                            "twopath", "sumlookup", "sumlookup"]
    cfg["rich_specs"] = True
    cfg["no_sort_by"] = True     # legacy sort_by= strings are not among the rewritten forms
    return cfg

  def check(self, sim, out, st):
    ev = out.ev
    if ev["k"] != "bundle" or "rename_any" not in ev.get("ops", ()) or len(ev.get("ops", ())) != 1 \
        or out.pre is None or not out.ok:
      return
    pre, post = out.pre, sim.sigma
    dvp, dvq = DocView(pre), DocView(post)
    # what got renamed (by metadata row id)
    renames = {}
    for ref, t in dvp.table_by_ref.items():
      t2 = dvq.table_by_ref.get(ref)
      if t2 is not None and t2.tableId != t.tableId:
        renames[t.tableId] = t2.tableId
    col_renames = {}
    for ref, c in dvp.col_by_ref.items():
      c2 = dvq.col_by_ref.get(ref)
      if c2 is not None and c2.colId != c.colId:
        renames[c.colId] = c2.colId
        col_renames[ref] = (c.colId, c2.colId)
    if set(dvp.col_by_ref) != set(dvq.col_by_ref):
      # e.g. a label change that converts nothing but adds helper columns: not expected
      sim.count("probe.rename_changed_column_set")
    checked = 0
    for ref, c in dvp.col_by_ref.items():
      c2 = dvq.col_by_ref.get(ref)
      if c2 is None:
        continue
      if c.formula:
        self._check_text(sim, c, c2, renames, ev)
      if not (c.isFormula and c.formula):
        continue
      t, t2 = c.table, c2.table
      if t.tableId not in pre or t2.tableId not in post:
        continue
      a = dict(zip(pre[t.tableId][2], pre[t.tableId][3].get(c.colId, [])))
      b = dict(zip(post[t2.tableId][2], post[t2.tableId][3].get(c2.colId, [])))
      if set(a) != set(b):
        raise vio(sim, "rename-rows", "%s rows changed during a rename" % t.tableId)
      for r in a:
        if eq.norm(_strip_table_ids(a[r], renames)) != eq.norm(_strip_table_ids(b[r], renames)):
          raise vio(sim, "rename-changed-value", "%s[%s].%s (now %s.%s) was %r, after %s it is %r; "
                    "formula %r -> %r" % (t.tableId, r, c.colId, t2.tableId, c2.colId, a[r],
                                          json.dumps(ev["a"], default=repr)[:160], b[r], c.formula, c2.formula))
        checked += 1
    sim.count("oracle.rename_values", checked)
    if renames:
      sim.count("oracle.nontrivial")
      sim.count("probe.effective_renames")
      sim.shapes.add("%s/%s" % (self.shape(sim)[:120], ev["a"][0][0]))

  def _check_text(self, sim, c, c2, renames, ev):
    if c.formula == c2.formula:
      return
    old = _TOKEN.findall(c.formula)
    new = _TOKEN.findall(c2.formula)
    ok = len(old) == len(new)
    if ok:
      for x, y in zip(old, new):
        if x == y:
          continue
        if x.lstrip("$") in renames and y == x.replace(x.lstrip("$"), renames[x.lstrip("$")]):
          continue
        if x[:1] in "\"'" and y[:1] == x[:1]:
          # a quoted column id (order_by / group_by / sort_by), possibly with a leading '-'
          inner_x, inner_y = x[1:-1], y[1:-1]
          sign = "-" if inner_x.startswith("-") else ""
          if inner_x[len(sign):] in renames and inner_y == sign + renames[inner_x[len(sign):]]:
            continue
        ok = False
        break
    if not ok:
      raise vio(sim, "rename-text", "formula of %s.%s changed beyond the renamed name tokens: %r -> %r "
                "(renames %r)" % (c.table.tableId, c.colId, c.formula, c2.formula, renames))
    sim.count("probe.formula_texts_rewritten")


def _strip_table_ids(v, renames):
  """Encoded record references embed the table id (['R', 'T1', 3]): map old ids to new ones."""
  if isinstance(v, list):
    if len(v) >= 2 and v[0] in ("R", "r") and isinstance(v[1], str):
      return [v[0], renames.get(v[1], v[1])] + [_strip_table_ids(x, renames) for x in v[2:]]
    return [_strip_table_ids(x, renames) for x in v]
  return v


# -- C19 ------------------------------------------------------------------------------------------

INVALID_FORMULAS = [
  "1 +", "(", ")", "[1, 2", "{'a': 1", "'unterminated", '"unterminated', "'''never closed", "$", "$1abc",
  "$a +", "def", "class X", "if $a:\nreturn 1", "  indented\nnot", "\tx = 1\n  y = 2\nx", "return return",
  "rec = 5\nrec", "$a = 3", "1 +* 2", "x = 5", "x = $a\ny = x", "x = = 1", "for x in", "while True", "@", "~",
  "\x00", "\x00$a", "é = 1\né +", "$a $b", "import", "from x import", "print 'x'", "a b c",
  "'a' 'b' +", "0x", "1e", "09", "$a..b", "$a.1", "[x for x]", "{**}", "*", "**$a", "x := 1", "(x := )",
  "try:\n  1", "else: 2", "\\", "$a \\ 5", "\"\"\"$a", "# only a comment", "", "   ", "\n\n", "pass",
  "return", "break", "continue", "yield 1", "await x", "async def f(): pass", "nonlocal x", "global x\nx",
  "del rec", "rec.a = 1", "$nosuchcolumn", "$a.nosuch.attr", "nosuchname", "1/0", "[][1]", "{}['k']",
  "int('x')", "None + 1", "raise ValueError('v')", "assert False", "(lambda: 1/0)()",
  "".join(chr(c) for c in range(1, 40)), "\ufeff1", "１＋１", "“quoted”", "a\u2028b", "\udc80" if False else "\u202e1",
]

VALID_TEMPLATES = [
  "${a} * 2", "rec.{a} + ${a}", "# $nosuch in a comment\n${a}", "'$nosuch in a string' + str(${a})",
  '"""multi\nline $nosuch"""  + "!"', "x = ${a} or 0\ny = x + 1\ny * 2", "return ${a}",
  "if ${a}:\n  return 'pos'\nelse:\n  return 'zero'", "(${a} +\n ${a})", "${a} #$nosuch",
  "def g(v):\n  return v * 2\ng(${a} or 1)", "[x for x in range(int(${a} or 0) % 4)]",
  "'a' if ${a} else '$b'", "${s}.upper() + '$'", "len(${s}) + ${a}", "${a}\n", "  ${a}  ", "${a};${a} + 1",
  "x = ${a}\nif x:\n  x += 1\nx", "'''$a'''", "r'\\$a' + ${s}", "${a} if True else $nosuch",
  "try:\n  v = 1 / ${a}\nexcept ZeroDivisionError:\n  v = -1\nv", "for i in range(3):\n  pass\ni + ${a}",
  "${a} and $b", "not ${a}", "-${a}", "${a} ** 2", "(${a}, ${s})", "{'k': ${a}}['k']", "${a}.real",
  "str(${a}) + '# not a comment $x'", "lambda_ = lambda v: v + 1\nlambda_(${a})",
  "'%s-%s' % (${a}, ${s})", "${a} //  2   # trailing", "None", "True", "'x'", "1.5", "[]", "${a} == $b",
  "${a}\n# trailing comment", "\n\n${a}", "x = (\n  ${a}\n)\nx", "return (${a},\n  $b)",
  "if ${a} > 1:\n  r = 'big'\nelif ${a} == 1:\n  r = 'one'\nelse:\n  r = 'small'\nr",
  "with open.__class__ and __import__('contextlib').nullcontext(${a}) as v:\n  w = v\nw",
  "class K:\n  z = 3\nK.z + ${a}", "import math\nmath.floor(${b} or 0)", "from math import floor\nfloor(${b} or 0) + ${a}",
  # multi-line string literals in every syntactic position (the method body is indented wholesale
  # and the literals have to come out unchanged)
  'len([c for c in """p\nq"""]) + ${a}', '[c for c in "ab" if c in """a\n  b"""]',
  '(lambda v="""a\nb""": len(v))() + ${a}', 'def g(v="""x\n y"""):\n  return v\ng()',
  'with __import__("contextlib").nullcontext("""a\nb""") as v:\n  w = len(v)\nw + ${a}',
  '{"""k\n1""": ${a}}', 'f"""{${a}}\n  x"""', '("""a\nb""", ${a})[0]', 'x = ["""l\n m""" for _ in range(2)]\nx[1]',
  'len("""\n\n""") if ${a} else """\n"""',
  # the only `return`s sit in places a statement walk may forget (handlers, match cases)
  "try:\n  v = 10 // (${a} or 0)\nexcept ZeroDivisionError:\n  return 'inf'",
  "try:\n  v = int(${s})\nexcept (ValueError, TypeError):\n  return -1\nelse:\n  w = v + 1",
  "match ${a}:\n  case 1:\n    return 'one'\n  case _:\n    return 'other'",
  "for i in range(2):\n  try:\n    int('x')\n  except ValueError:\n    return i",
]


def dollar_translate(text):
  """Independent `$name -> rec.name` translation outside strings and comments (a small lexer,
  not codebuilder.py)."""
  out = []
  i, n = 0, len(text)
  while i < n:
    ch = text[i]
    if ch == "#":
      j = text.find("\n", i)
      j = n if j < 0 else j
      out.append(text[i:j])
      i = j
      continue
    if ch in "\"'":
      q = text[i:i + 3] if text[i:i + 3] in ('"""', "'''") else ch
      j = i + len(q)
      while j < n:
        if text[j] == "\\":
          j += 2
          continue
        if text.startswith(q, j):
          j += len(q)
          break
        if len(q) == 1 and text[j] == "\n":
          break
        j += 1
      out.append(text[i:j])
      i = j
      continue
    if ch == "$" and i + 1 < n and (text[i + 1].isalpha() or text[i + 1] == "_"):
      j = i + 1
      while j < n and (text[j].isalnum() or text[j] == "_"):
        j += 1
      out.append("rec." + text[i + 1:j])
      i = j
      continue
    out.append(ch)
    i += 1
  return "".join(out)


def reference_eval(text, row):
  """Evaluate a formula text against a row (dict) with Python itself: `$x` -> rec.x outside
  strings/comments, last expression statement returned. Returns ('v', value) or ('e', class name)."""
  src = dollar_translate(text)
  tree = ast.parse(src)
  if tree.body and isinstance(tree.body[-1], ast.Expr):
    tree.body[-1] = ast.copy_location(ast.Return(tree.body[-1].value), tree.body[-1])
  fn = ast.FunctionDef(name="_f", args=ast.arguments(posonlyargs=[], args=[ast.arg("rec"), ast.arg("table")],
                                                     kwonlyargs=[], kw_defaults=[], defaults=[]),
                       body=tree.body or [ast.Pass()], decorator_list=[], type_params=[])
  mod = ast.Module(body=[fn], type_ignores=[])
  ast.fix_missing_locations(mod)
  ns = {}
  exec(compile(mod, "<ref>", "exec"), ns)      # pylint: disable=exec-used
  class Rec(object):
    pass
  rec = Rec()
  for k, v in row.items():
    setattr(rec, k, v)
  try:
    return ("v", ns["_f"](rec, None))
  except Exception as e:     # pylint: disable=broad-except
    return ("e", type(e).__name__)


class C19(HistoryProfile):
  prop = "C19"
  name = "c19"
  technique = ("deterministic simulation with an injected fault of kind 'poisoned user code': hostile "
               "formula texts written into a running document (shared generated module); other columns "
               "must not move and the document must keep working (from-scratch recheck); valid texts are "
               "compared with an independent $-translation evaluated by Python")
  max_events = 26
  p_undo = 0.05
  p_redo_after_undo = 0.5

  def base_weights(self):
    # record edits only: the schema of P and Q stays as the reference evaluator assumes
    return {"add_records": 10, "update_records": 20, "remove_records": 5}

  def config(self, rng, tier):
    cfg = super(C19, self).config(rng, tier)
    cfg["weights"] = self.base_weights()
    cfg["alt_text_p"] = 0.0
    cfg["p_poison"] = rng.choice([0.3, 0.5])
    cfg["p_valid"] = rng.choice([0.2, 0.3])
    return cfg

  def first_events(self, sim, g, cfg):
    return [{"k": "open"},
            {"k": "bundle", "ops": ["poison_schema"], "a": [
              ["AddTable", "P", [{"id": "a", "type": "Int", "isFormula": False},
                                 {"id": "b", "type": "Numeric", "isFormula": False},
                                 {"id": "s", "type": "Text", "isFormula": False},
                                 {"id": "h1", "type": "Any", "isFormula": True, "formula": "($a or 0) + ($b or 0)"},
                                 {"id": "h2", "type": "Any", "isFormula": True,
                                  "formula": "len(P.lookupRecords(a=$a))"}]],
              ["BulkAddRecord", "P", [None] * 4, {"a": [1, 0, 2, 1], "b": [0.5, 2.0, 0.0, -1.5],
                                                  "s": ["x", "", "Ab", "é"]}],
              ["AddTable", "Q", [{"id": "k", "type": "Int", "isFormula": False},
                                 {"id": "h3", "type": "Any", "isFormula": True,
                                  "formula": "[r.id for r in P.lookupRecords(a=$k)]"}]],
              ["BulkAddRecord", "Q", [None] * 2, {"k": [1, 5]}]]}]

  def next_event(self, sim, g, cfg, st, i):
    rng = g.rng
    dv = DocView(sim.sigma)
    r = rng.random()
    if "P" not in dv.tables:
      return None
    if r < cfg["p_poison"]:
      text = rng.choice(INVALID_FORMULAS)
      if rng.random() < 0.15:
        text = "".join(chr(rng.choice([rng.randint(1, 127), rng.randint(128, 0x2fff)])) for _ in range(rng.randint(1, 30)))
      return self._write(rng, g, dv, text, "poison")
    r -= cfg["p_poison"]
    if r < cfg["p_valid"]:
      tpl = rng.choice(VALID_TEMPLATES)
      text = tpl.replace("{a}", rng.choice(["a", "b"])).replace("{b}", "b").replace("{s}", "s")
      return self._write(rng, g, dv, text, "valid")
    return super(C19, self).next_event(sim, g, cfg, st, i)

  def _write(self, rng, g, dv, text, kind):
    t = dv.tables["P"]
    mine = [c for c in t.cols.values() if c.colId.startswith("z")]
    tid = rng.choice(["P", "P", "Q"]) if "Q" in dv.tables else "P"
    if mine and rng.random() < 0.4 and tid == "P":
      c = rng.choice(mine)
      return {"k": "bundle", "ops": [kind], "a": [["ModifyColumn", "P", c.colId, {"formula": text}]]}
    return {"k": "bundle", "ops": [kind],
            "a": [["AddColumn", tid, g.new_col_id("z"), {"type": "Any", "isFormula": True, "formula": text}]]}

  def check(self, sim, out, st):
    ev = out.ev
    ops = ev.get("ops", ())
    if ev["k"] != "bundle" or not (set(ops) & {"poison", "valid"}) or out.pre is None:
      if out.ok and ev["k"] in ("bundle", "undo", "redo") and st.get("poisoned"):
        st["n"] = st.get("n", 0) + 1
        if st["n"] % 4 == 0:
          check_from_scratch(sim, self.prop)
          sim.count("oracle.keeps_working")
      return
    a = ev["a"][0]
    tid, cid, text = a[1], a[2], a[3]["formula"]
    if tid not in out.pre:
      return
    if not out.ok:
      if a[0] == "ModifyColumn" and cid not in DocView(out.pre).tables[tid].cols:
        return
      # The engine refused the text (e.g. `await x`, NUL bytes: the generated module does not
      # compile and no syntax-error stub is produced). The document "keeps working" only if the
      # refusal left no trace; the following events show whether it still accepts edits.
      d = eq.diff(out.pre, out.post)
      if d:
        raise vio(sim, "refused-formula-left-trace", "writing formula %r into %s.%s raised %s and "
                  "changed: %s" % (text, tid, cid, out.error, "; ".join(d[:3])))
      sim.count("probe.formula_text_refused")
      st["poisoned"] = True
      return
    st["poisoned"] = True
    pre, post = out.pre, sim.sigma
    # every other column is untouched
    d = eq.diff(pre, post, ignore_cols={tid: [cid], "_grist_Tables_column": ["formula", "parentPos"],
                                        "_grist_Views_section_field": ["parentPos"]},
                tables=[t for t in pre if not t.startswith("_grist_")])
    d = [x for x in d if "columns differ" not in x or ("['%s']" % cid) not in x]
    if d:
      raise vio(sim, "formula-not-isolated", "writing %r into %s.%s changed other cells: %s" % (
        text, tid, cid, "; ".join(d[:3])))
    sim.count("oracle.isolated")
    if "valid" in ops:
      rows = eq.rows_of(post[tid])
      for r, rec in rows.items():
        row = {k: v for k, v in rec.items() if k in ("a", "b", "s", "k")}
        row["id"] = r
        try:
          exp = reference_eval(text, row)
        except SyntaxError:
          continue
        got = rec.get(cid)
        if exp[0] == "e":
          if not (isinstance(got, eq.Err) and got.cls == exp[1]):
            raise vio(sim, "formula-meaning", "%s[%s].%s = %r, Python evaluates %r to a raised %s" % (
              tid, r, cid, got, text, exp[1]))
        else:
          import objtypes
          try:
            enc = objtypes.encode_object(exp[1])
          except Exception:    # pylint: disable=broad-except
            continue
          if isinstance(got, eq.Err) or eq.norm(eq.decode(enc)) != eq.norm(got):
            raise vio(sim, "formula-meaning", "%s[%s].%s = %r, Python evaluates %r to %r" % (
              tid, r, cid, got, text, exp[1]))
        sim.count("oracle.meaning")
    sim.count("oracle.nontrivial")
    sim.shapes.add("%s/%s" % (ops[0], text[:40]))

  def finish(self, sim, st):
    check_from_scratch(sim, self.prop)

  def rule_text(self):
    return ("one case = one seeded run that writes hostile (%d fixed + random) or valid-but-tricky "
            "(%d templates) formula texts into a healthy document and keeps editing; distinct = "
            "distinct (kind, text) pairs written and checked" % (len(INVALID_FORMULAS), len(VALID_TEMPLATES)))


# -- C15 ------------------------------------------------------------------------------------------

TRIGGER_FORMULA = "(value if isinstance(value, (int, float)) else 0) + 1"


class C15(HistoryProfile):
  prop = "C15"
  name = "c15"
  technique = ("deterministic simulation: trigger-formula columns instrumented as recalculation "
               "counters, reconfigured and exercised through seeded histories (adds with/without "
               "explicit values, updates to deps / non-deps / the column itself, equal-value writes, "
               "schema changes to deps, undo/redo); three-valued reference model (must / must-not / may)")
  max_events = 34
  DATA = ["d1", "d2", "txt"]

  def config(self, rng, tier):
    return {"max_events": rng.randint(8, self.max_events), "p_undo": 0.07}

  def first_events(self, sim, g, cfg):
    return [{"k": "open"},
            {"k": "bundle", "ops": ["trigger_schema"], "a": [
              ["AddTable", "G", [{"id": "d1", "type": "Int", "isFormula": False},
                                 {"id": "d2", "type": "Int", "isFormula": False},
                                 {"id": "txt", "type": "Text", "isFormula": False},
                                 # a formula column usable as a dependency: it is recomputed (and
                                 # changes) exactly when d1 changes
                                 {"id": "fx", "type": "Any", "isFormula": True,
                                  "formula": "($d1 if isinstance($d1, (int, float)) else 0) * 2 + 1"}]],
              ["BulkAddRecord", "G", [None] * 3, {"d1": [1, 2, 3], "d2": [0, 0, 5], "txt": ["a", "b", ""]}]]}]

  def _tcols(self, dv):
    t = dv.tables.get("G")
    return [c for c in t.cols.values() if c.is_trigger and c.formula == TRIGGER_FORMULA] if t else []

  def next_event(self, sim, g, cfg, st, i):
    rng = g.rng
    dv = DocView(sim.sigma)
    t = dv.tables.get("G")
    if t is None:
      return None
    tcols = self._tcols(dv)
    datacols = [c for c in t.cols.values() if not c.formula and not c.isFormula and c.colId != "manualSort"]
    r = rng.random()
    if r < cfg["p_undo"] and sim.ptr > 1:
      if rng.random() < 0.6:
        st.setdefault("pending", []).append({"k": "redo"})
      return {"k": "undo"}
    if st.get("pending"):
      return st["pending"].pop(0)
    if (r < 0.18 and len(tcols) < 4) or not tcols:
      when = rng.choice([0, 0, 1, 2])
      return {"k": "bundle", "ops": ["add_trigger"], "a": [
        ["AddColumn", "G", g.new_col_id("t"), {"type": "Numeric", "isFormula": False,
                                               "formula": TRIGGER_FORMULA, "recalcWhen": when}]]}
    if r < 0.30:
      c = rng.choice(tcols)
      # dependencies: data columns, the formula column fx, or the column itself (data cleaning).
      # (Chains through other trigger columns would make "recomputed in that row" depend on the
      # evaluation order; they are left out so that the model stays two-valued where it can.)
      fxc = [x for x in t.cols.values() if x.colId == "fx" or x.formula.endswith("* 2 + 1")]
      pool = datacols + fxc + [c]
      deps = sorted(x.ref for x in rng.sample(pool, rng.randint(0, min(3, len(pool)))))
      upd = rng.choice([{"recalcDeps": (["L"] + deps) if deps else None},
                        {"recalcWhen": rng.choice([0, 1, 2])},
                        {"recalcWhen": rng.choice([0, 1, 2]), "recalcDeps": (["L"] + deps) if deps else None}])
      # (through the metadata record, as the client does: ModifyColumn cannot carry a list value)
      if rng.random() < 0.3 and t.row_ids and datacols:
        # ... and, in the same bundle, an edit of a (former or future) dependency. The model does
        # not say what such a bundle must do; undo and redo still have to restore what it did.
        d = rng.choice(datacols)
        v = rng.choice([0, 1, 2, 3, 5]) if d.pure in ("Int", "Numeric") else rng.choice(["", "a", "b"])
        acts = [["UpdateRecord", "_grist_Tables_column", c.ref, upd],
                ["UpdateRecord", "G", rng.choice(t.row_ids), {d.colId: v}]]
        if rng.random() < 0.5:
          acts.reverse()
        st.setdefault("pending", []).extend([{"k": "undo"}, {"k": "redo"}])
        return {"k": "bundle", "ops": ["reconfigure", "update"], "a": acts}
      return {"k": "bundle", "ops": ["reconfigure"], "a": [["UpdateRecord", "_grist_Tables_column", c.ref, upd]]}
    if r < 0.37 and datacols:
      c = rng.choice(datacols)
      if rng.random() < 0.6:
        return {"k": "bundle", "ops": ["dep_rename"], "a": [["RenameColumn", "G", c.colId, g.new_col_id("r")]]}
      new = {"Int": "Numeric", "Numeric": "Int", "Text": "Choice", "Choice": "Text"}.get(c.pure, "Text")
      return {"k": "bundle", "ops": ["dep_type"], "a": [["ModifyColumn", "G", c.colId, {"type": new}]]}
    rows = t.row_ids
    def val(c):
      return rng.choice([0, 1, 2, 3, 5]) if c.pure in ("Int", "Numeric") else rng.choice(["", "a", "b"])
    if r < 0.55 or not rows:
      n = rng.choice([1, 1, 2])
      cols = rng.sample(datacols, rng.randint(0, len(datacols)))
      expl = [c for c in tcols if rng.random() < 0.3]
      vals = {c.colId: [val(c) for _ in range(n)] for c in cols}
      vals.update({c.colId: [rng.choice([50, 60, 0]) for _ in range(n)] for c in expl})
      if n == 1:
        return {"k": "bundle", "ops": ["add"], "a": [["AddRecord", "G", None, {k: v[0] for k, v in vals.items()}]]}
      return {"k": "bundle", "ops": ["add"], "a": [["BulkAddRecord", "G", [None] * n, vals]]}
    if r < 0.93:
      n = rng.choice([1, 1, 2, 3])
      rs = rng.sample(rows, min(n, len(rows)))
      cols = rng.sample(datacols, rng.randint(1, min(2, len(datacols))))
      cur = eq.raw_rows_of(sim.sigma["G"])
      vals = {}
      for c in cols:
        # half of the writes keep the current value (equal-value writes must not fire)
        vals[c.colId] = [cur[x][c.colId] if rng.random() < 0.4 else val(c) for x in rs]
      if tcols and rng.random() < 0.25:
        c = rng.choice(tcols)
        vals[c.colId] = [rng.choice([70, 80, cur[x][c.colId]]) for x in rs]
      if len(rs) == 1:
        return {"k": "bundle", "ops": ["update"], "a": [["UpdateRecord", "G", rs[0], {k: v[0] for k, v in vals.items()}]]}
      return {"k": "bundle", "ops": ["update"], "a": [["BulkUpdateRecord", "G", rs, vals]]}
    return {"k": "bundle", "ops": ["remove"], "a": [["RemoveRecord", "G", rng.choice(rows)]]}

  def check(self, sim, out, st):
    ev = out.ev
    k = ev["k"]
    if out.pre is None or "G" not in (out.pre or {}) or "G" not in sim.sigma:
      return
    if k in ("undo", "redo") and out.ok:
      # undo / redo restore stored values; they are log replay, not user-requested updates
      e = out.extra.get("entry")
      want = e.pre if k == "undo" else e.post
      d = eq.diff(want, sim.sigma, tables=["G"])
      if d:
        raise vio(sim, "trigger-undo-redo", "%s changed trigger cells: %s" % (k, "; ".join(d[:3])))
      sim.count("oracle.undo_redo")
      return
    if k != "bundle" or not out.ok or len(ev.get("a", [])) != 1:
      return
    op = ev.get("ops", ["?"])[0]
    a = ev["a"][0]
    dvp, dvq = DocView(out.pre), DocView(sim.sigma)
    pre = eq.raw_rows_of(out.pre["G"])
    post = eq.raw_rows_of(sim.sigma["G"])
    tcols_pre = {c.ref: c for c in self._tcols(dvp)}
    tcols_post = {c.ref: c for c in self._tcols(dvq)}
    checked = 0
    for ref, cq in tcols_post.items():
      cp = tcols_pre.get(ref)
      if cp is None:
        continue            # the column was added by this bundle: baseline only
      when = cp.recalcWhen or 0
      deps = set(cp.recalcDeps)
      dep_ids = set()
      other_trigger_dep = False
      for d in deps:
        dc = dvp.col_by_ref.get(d)
        if dc is not None:
          if dc.isFormula and dc.formula.endswith("* 2 + 1"):
            # fx is recomputed and changes exactly when the cell it reads (d1, whatever its
            # current name) changes
            src = sorted(fx.rec_attrs(dc.formula))
            dep_ids.update(src)
          elif dc.is_trigger and d != ref:
            other_trigger_dep = True
          else:
            dep_ids.add(dc.colId)
      self_dep = (when == 0 and ref in deps)
      for r in post:
        now = post[r][cq.colId]
        if r not in pre:
          # a new record
          if op != "add":
            continue
          idx = 0 if a[0] == "AddRecord" else None
          vals = a[3]
          explicit = cp.colId in vals
          if explicit:
            v = vals[cp.colId] if a[0] == "AddRecord" else vals[cp.colId][self._new_index(out, r)]
            allowed = {float(v)} if not self_dep else {float(v), float(v) + 1}
            verdict = "explicit value must be kept"
          elif when == 1:
            allowed = {0.0}
            verdict = "NEVER: a new record keeps the default"
          else:
            allowed = {1.0}
            verdict = "a new record without a supplied value gets the formula's value"
          if not self._in(now, allowed):
            raise vio(sim, "trigger-on-add", "G[%s].%s = %r after %s; %s (allowed %s; recalcWhen=%s deps=%s)" % (
              r, cq.colId, now, json.dumps(a, default=repr)[:200], verdict, sorted(allowed), when, sorted(dep_ids)))
          checked += 1
          continue
        before = pre[r][cp.colId]
        if not isinstance(before, (int, float)) or isinstance(before, bool):
          continue
        fired = {float(before) + 1}
        kept = {float(before)}
        if op in ("dep_rename", "dep_type", "remove", "add"):
          allowed, verdict = kept, "schema changes / other rows never trigger recalculation"
        elif op == "reconfigure":
          if a[2] == cp.ref:
            allowed, verdict = kept | fired, "reconfigured column: unconstrained"
          else:
            allowed, verdict = kept, "reconfiguring another column must not fire this one"
        elif op == "update":
          rows = a[2] if isinstance(a[2], list) else [a[2]]
          if r not in rows:
            allowed, verdict = kept, "row not addressed by the update"
          else:
            i = rows.index(r)
            vals = {c: (v[i] if isinstance(a[2], list) else v) for c, v in a[3].items()}
            written = set(vals)
            changed = {c for c, v in vals.items() if c in pre[r] and eq.norm(pre[r][c]) != eq.norm(
              float(v) if (isinstance(v, int) and not isinstance(v, bool) and isinstance(pre[r][c], float)) else v)}
            if cp.colId in written:
              v = float(vals[cp.colId])
              if self_dep or (when == 2 and changed):
                allowed, verdict = {v, v + 1}, "explicit value on a self-dependent / manual-update column"
              else:
                allowed, verdict = {v}, "a value set explicitly in the same user action is kept"
            elif when == 1:
              allowed, verdict = kept, "NEVER"
            elif when == 2:
              if changed:
                allowed, verdict = fired, "MANUAL_UPDATES: a user update changed this row"
              else:
                allowed, verdict = kept, "MANUAL_UPDATES: nothing changed in this row"
            else:
              if dep_ids & changed:
                allowed, verdict = fired, "DEFAULT: a dependency cell of this row changed value"
              elif not (dep_ids & written):
                allowed, verdict = kept, "DEFAULT: no dependency was written in this row"
              else:
                allowed, verdict = kept | fired, "DEFAULT: dependency written with an equal value"
        else:
          continue
        if other_trigger_dep and when == 0 and op == "update":
          allowed = allowed | fired      # a dependency that is itself recomputed in this row: may
        if not self._in(now, allowed):
          raise vio(sim, "trigger-model", "G[%s].%s went %r -> %r after %s; %s (allowed %s; recalcWhen=%s deps=%s)" % (
            r, cq.colId, before, now, json.dumps(a, default=repr)[:220], verdict, sorted(allowed), when, sorted(dep_ids)))
        checked += 1
        sim.count("probe.verdict_" + ("must" if allowed == fired else "mustnot" if len(allowed) == 1 else "may"))
    sim.count("oracle.trigger_cells", checked)
    if checked:
      sim.count("oracle.nontrivial")
      sim.shapes.add("%s/%s" % (op, sorted((c.recalcWhen or 0, len(c.recalcDeps)) for c in tcols_pre.values())))

  @staticmethod
  def _new_index(out, r):
    ret = out.ret[0]
    ids = ret if isinstance(ret, list) else [ret]
    return ids.index(r)

  @staticmethod
  def _in(v, allowed):
    return isinstance(v, (int, float)) and not isinstance(v, bool) and float(v) in allowed

  def rule_text(self):
    return ("one case = one seeded history over a table with up to 4 instrumented trigger columns; "
            "non-trivial = the three-valued model was evaluated on at least one trigger cell; distinct = "
            "distinct (operation kind, multiset of (recalcWhen, #deps) configurations)")


PROFILES = [C13(), C14(), C39(), C28(), C23(), C16(), C19(), C15()]
