"""
Model-based profiles: C13 (lookups), C14 (find.* / PREVIOUS / NEXT / RANK), C16 (renames),
C19 (invalid formulas), C23 (type changes), C28 (upserts), C39 (RenameChoices), C15 (triggers).
Oracles are stateless readers of Sigma: they re-read every formula text the engine currently
stores (fx.py) and evaluate its meaning with reference models (lookupmodel.py).
"""
import ast
import io
import json
import tokenize

from .. import eq, gen, fx, boot
from .. import lookupmodel as lm
from ..docview import DocView
from ..profile import Profile, vio
from ..sim import Sim, Violation, split_reply
from .core import HistoryProfile, check_from_scratch

U = lm.UNCONSTRAINED


# -- reading probe formulas ---------------------------------------------------------------------------

def classify_probe(formula):
  """Recognise the probe shapes of our grammar. Returns (kind, payload) or None."""
  tree = fx.parse(formula)
  if tree is None or len(tree.body) != 1 or not isinstance(tree.body[0], ast.Expr):
    return None
  e = tree.body[0].value
  def as_lookup(call):
    lks = [l for l in fx.find_lookups(ast.Expression(call)) if l.node is call]
    return lks[0] if lks else None
  # [r.id for r in T.lookupRecords(...)]
  if isinstance(e, ast.ListComp) and len(e.generators) == 1 and not e.generators[0].ifs \
      and isinstance(e.elt, ast.Attribute) and e.elt.attr == "id" \
      and isinstance(e.generators[0].iter, ast.Call):
    lk = as_lookup(e.generators[0].iter)
    if lk and lk.method == "lookupRecords":
      return ("ids", lk)
  # len(T.lookupRecords(...))
  if isinstance(e, ast.Call) and isinstance(e.func, ast.Name) and e.func.id == "len" and len(e.args) == 1 \
      and isinstance(e.args[0], ast.Call):
    lk = as_lookup(e.args[0])
    if lk and lk.method == "lookupRecords":
      return ("count", lk)
  if isinstance(e, ast.Attribute) and e.attr == "id" and isinstance(e.value, ast.Call):
    c = e.value
    # T.lookupOne(...).id
    lk = as_lookup(c)
    if lk and lk.method == "lookupOne":
      return ("one", lk)
    # T.lookupRecords(...).find.OP(args).id
    if isinstance(c.func, ast.Attribute) and c.func.attr in ("lt", "le", "gt", "ge", "eq") \
        and isinstance(c.func.value, ast.Attribute) and c.func.value.attr == "find" \
        and isinstance(c.func.value.value, ast.Call):
      lk = as_lookup(c.func.value.value)
      if lk and lk.method == "lookupRecords":
        return ("find", (lk, c.func.attr, c.args))
    # PREVIOUS(rec, ...).id / NEXT(rec, ...).id
    if isinstance(c.func, ast.Name) and c.func.id in ("PREVIOUS", "NEXT"):
      pn = [p for p in fx.find_prevnext(ast.Expression(c)) if p.node is c]
      if pn:
        return ("prevnext", pn[0])
  if isinstance(e, ast.Call) and isinstance(e.func, ast.Name) and e.func.id == "RANK":
    pn = [p for p in fx.find_prevnext(ast.Expression(e)) if p.node is e]
    if pn:
      return ("rank", pn[0])
  return None


def prevnext_rows(snap, dv, p, table_id, row_id):
  """Ordered row ids of the group of row_id for a PREVIOUS/NEXT/RANK call."""
  tv = lm.TableView(snap, dv, table_id)
  gb = p.group_by
  if gb is NotImplemented or p.order_by is NotImplemented:
    return U
  if isinstance(gb, str):
    gb = (gb,)
  gb = tuple(gb or ())
  keys = {}
  for g in gb:
    if not isinstance(g, str) or tv.col_pure(g) is None:
      return U
    v = tv.value(row_id, g)
    if v is U or isinstance(v, eq.Err):
      return U
    v2 = lm.convert_key(tv.col_pure(g), v)
    if v2 is U:
      return U
    if isinstance(v2, tuple) and not (v2 and v2[0] in ("date", "dt")):
      return U
    keys[g] = ("eq", v2)
  spec = lm.parse_spec(p.order_by, None, "manualSort" in tv.t.cols)
  if spec is U:
    return U
  for col, _s in spec:
    if tv.col_pure(col) is None:
      return U
  rows = lm.matching_rows(tv, keys)
  if rows is U:
    return U
  if row_id not in rows:
    return U       # e.g. alt text in a group-by column of this row: equal to nothing
  return lm.order_rows(tv, rows, spec)


def expected_probe_value(snap, dv, table_id, row_id, probe):
  kind, payload = probe
  if kind in ("ids", "count", "one"):
    rows = lm.lookup_result(snap, dv, payload, table_id, row_id)
    if rows is U:
      return U
    if kind == "ids":
      return list(rows)
    if kind == "count":
      return len(rows)
    return rows[0] if rows else 0
  if kind == "find":
    lk, op, args = payload
    rows = lm.lookup_result(snap, dv, lk, table_id, row_id)
    if rows is U:
      return U
    tv = lm.TableView(snap, dv, lk.table)
    own = tv if lk.table == table_id else lm.TableView(snap, dv, table_id)
    spec = lm.parse_spec(lk.order_by, lk.sort_by, "manualSort" in tv.t.cols)
    if spec is U or not args or len(args) > len(spec):
      return U
    values = []
    for a in args:
      k = lm.eval_key_expr(a, own, row_id)
      if k is U or k[0] != "eq":
        return U
      values.append(k[1])
    cmps = []
    for r in rows:
      c = lm.cmp_values(tv, r, spec, values)
      if c is U:
        return U
      cmps.append(c)
    # linear scan of the ordered result
    if op == "lt":
      cand = [r for r, c in zip(rows, cmps) if c < 0]
      return cand[-1] if cand else 0
    if op == "le":
      cand = [r for r, c in zip(rows, cmps) if c <= 0]
      return cand[-1] if cand else 0
    if op == "gt":
      cand = [r for r, c in zip(rows, cmps) if c > 0]
      return cand[0] if cand else 0
    if op == "ge":
      cand = [r for r, c in zip(rows, cmps) if c >= 0]
      return cand[0] if cand else 0
    cand = [r for r, c in zip(rows, cmps) if c == 0]
    return cand[0] if cand else 0
  if kind in ("prevnext", "rank"):
    p = payload
    rows = prevnext_rows(snap, dv, p, table_id, row_id)
    if rows is U:
      return U
    i = rows.index(row_id)
    if kind == "rank":
      if p.order == "asc":
        return i + 1
      if p.order == "desc":
        return len(rows) - i
      return U
    if p.func == "PREVIOUS":
      return rows[i - 1] if i > 0 else 0
    return rows[i + 1] if i + 1 < len(rows) else 0
  return U


def check_probes(sim, snap, prop, kinds, oracle_name):
  """Compare every probe formula column of the given kinds with the reference model."""
  dv = DocView(snap)
  n_checked = 0
  n_unconstrained = 0
  for t in dv.user_tables():
    for c in t.cols.values():
      if not (c.isFormula and c.formula) or c.pure != "Any":
        continue      # a typed formula column converts the result (C22/C23 territory)
      probe = classify_probe(c.formula)
      if probe is None or probe[0] not in kinds:
        continue
      cells = eq.rows_of(snap[t.tableId])
      for r in sorted(cells):
        exp = expected_probe_value(snap, dv, t.tableId, r, probe)
        if exp is U:
          n_unconstrained += 1
          continue
        got = cells[r].get(c.colId)
        if isinstance(got, eq.Err) or eq.norm(got) != eq.norm(exp):
          raise vio(sim, oracle_name, "%s[%s].%s = %r but the reference model of `%s` gives %r" % (
            t.tableId, r, c.colId, got, c.formula, exp), prop)
        n_checked += 1
        sim.count("probe.kind_" + probe[0])
  return n_checked, n_unconstrained


class LookupProfile(HistoryProfile):
  kinds = ()
  oracle_name = "lookup"
  formula_kinds = ()
  p_undo = 0.06
  p_redo_after_undo = 0.5
  p_restart = 0.02
  max_events = 36

  def base_weights(self):
    w = dict(gen.DEFAULT_WEIGHTS)
    w.update({"add_formula_column": 22, "modify_formula": 6, "update_records": 26, "add_records": 12,
              "remove_records": 10, "add_data_column": 8, "position_edit": 6, "modify_type": 2,
              "rename_column": 2, "rename_table": 1, "add_summary": 0, "update_summary": 0,
              "detach_summary": 0, "add_summary_formula": 0, "duplicate_table": 1})
    return w

  def config(self, rng, tier):
    cfg = super(LookupProfile, self).config(rng, tier)
    cfg["weights"] = gen.swarm_weights(rng, self.base_weights(),
                                       keep=("add_records", "update_records", "add_table",
                                             "add_formula_column", "add_data_column"))
    cfg["formula_kinds"] = list(self.formula_kinds)
    cfg["rich_specs"] = True
    cfg["none_p"] = rng.choice([0.0, 0.05])
    cfg["alt_text_p"] = rng.choice([0.0, 0.03])
    cfg["max_rows"] = rng.choice([6, 10, 14])
    return cfg

  def check(self, sim, out, st):
    if not out.ok or out.ev["k"] not in ("bundle", "undo", "redo", "restart"):
      return
    from . import scans      # registers position_edit
    n, u = check_probes(sim, sim.sigma, self.prop, self.kinds, self.oracle_name)
    sim.count("oracle." + self.oracle_name, n)
    sim.count("probe.unconstrained_cells", u)
    if n and (out.stored or out.ev["k"] == "restart"):
      sim.count("oracle.nontrivial")
      sim.shapes.add("%s/%s" % (self.shape(sim), ",".join(out.ev.get("ops", ()))))

  def rule_text(self):
    return (super(LookupProfile, self).rule_text() + "; the oracle is evaluated for every probe "
            "formula cell whose situation is inside the property's precondition (comparable sort "
            "values, no NaN/alt-text keys); others are counted as unconstrained")


class C13(LookupProfile):
  prop = "C13"
  name = "c13"
  kinds = ("ids", "count", "one")
  oracle_name = "lookup"
  formula_kinds = ("lookup", "lookup", "lookupone", "count", "contains", "contains", "arith", "str")
  technique = ("deterministic simulation: lookup probe formulas kept alive through seeded histories "
               "that hammer the index (key/sort/list edits, row add/remove/re-add, manualSort moves, "
               "undo/redo, restarts); naive filter + sort of Sigma as the reference")


class C14(LookupProfile):
  prop = "C14"
  name = "c14"
  kinds = ("find", "prevnext", "rank")
  oracle_name = "sorted_search"
  formula_kinds = ("find", "find", "prevnext", "prevnext", "prevnext", "lookup", "arith")
  technique = ("deterministic simulation: find.*/PREVIOUS/NEXT/RANK probe formulas evaluated "
               "incrementally over cached sorted lookup results through seeded edit histories "
               "(duplicates, descending specs, group_by); linear scan of the reference order")

  def config(self, rng, tier):
    cfg = super(C14, self).config(rng, tier)
    cfg["max_rows"] = rng.choice([6, 10, 16])
    return cfg


PROFILES = [C13(), C14()]
