"""
C17: renames inside access rules, ACL resources, user-attribute rules, dropdown conditions and
trigger conditions. The oracle renames with Python's own `ast` (independent of predicate_formula's
entity collectors) and checks the two stored forms (text, parsed) against each other.
"""
import ast
import json
import re

from .. import eq, gen, fx
from ..docview import DocView
from ..profile import Profile, vio
from .core import HistoryProfile
from .models import _TOKEN

# predicate formulas over placeholders: {c1}/{c2} columns of the rule's own table, {u} a column of
# the user-attribute table, {k} a column of the referenced table (dropdown conditions only)
ACL_FORMULAS = [
  "rec.{c1} == 1", "${c1} > 2 or user.Access == 'owners'", "newRec.{c1} != rec.{c1}",
  "rec.{c1} in [1, 2, 3] and not ${c2}", "user.Att.{u} == rec.{c2}", "user.Att.{u} == ${c1}  # why",
  "(rec.{c1} + newRec.{c2}) % 2 == 0", "user.Att.{u} is None or rec.{c2} is not None",
  "rec.{c1} == '{c1}' and rec.{c2} == \"rec.{c2}\"", "user.{c1} == rec.{c1}", "rec.{c1}.{c2} == 3",
  "other.{c1} == rec.{c1}", "rec.{c1} == user.Att2.{u}", "True", "user.Access in ['editors', 'owners']",
  # Att3 is defined (if at all) by a rule added later than the rules that mention it
  "user.Att3.{u} == rec.{c1}", "rec.{c2} != 0 and user.Att3.{u} != ''",
  "${c1}==${c2}", "newRec.{c1} < 5 <= rec.{c2}", "rec.{c1} not in [${c2}, 7]", "-rec.{c1} < 0",
  # not parseable: must stay byte-identical
  "rec.{c1} ==", "${c1} +", "rec.{c1} == 1 and", "(rec.{c1}", "rec.{c1} = 1", "lambda: rec.{c1}",
  "rec.{c1} if ${c2} else 0", "", "  ",
]
DROPDOWN_FORMULAS = [
  "choice.{k} == ${c1}", "choice.{k} > rec.{c1} and choice.id != rec.{c2}", "${c1} in [1, 2] # c",
  "choice.{k}.{c1} == 1", "not choice.{k}", "rec.{c1} == choice.{c1}", "choice.{k} ==", "{c1} == 1",
  "user.Att.{u} == choice.{k}",
]
TRIGGER_FORMULAS = [
  "rec.{c1} != oldRec.{c1}", "${c1} > 1 and oldRec.{c2} is None", "newRec.{c1} == 1", "oldRec.{c1} ==",
  "rec.{c1} in [oldRec.{c1}, oldRec.{c2}]", "True",
]


def to_tree(text):
  try:
    return ast.parse(fx.to_py(text).strip(), mode="eval")
  except SyntaxError:
    return None
  except ValueError:
    return None


class Renamer(ast.NodeTransformer):
  """Rename attribute accesses `subject.old` (or `user.Attr.old`) to `.new`."""
  def __init__(self, subjects, user_attrs, old, new):
    self.subjects = subjects        # names: rec, newRec, oldRec, choice
    self.user_attrs = user_attrs    # attribute names Attr for which user.Attr.old is renamed
    self.old = old
    self.new = new

  def visit_Attribute(self, node):
    self.generic_visit(node)
    if node.attr != self.old:
      return node
    v = node.value
    if isinstance(v, ast.Name) and v.id in self.subjects:
      node.attr = self.new
    elif (isinstance(v, ast.Attribute) and isinstance(v.value, ast.Name) and v.value.id == "user"
          and v.attr in self.user_attrs):
      node.attr = self.new
    return node


def expected_tree(text, subjects, user_attrs, old, new):
  tree = to_tree(text)
  if tree is None:
    return None
  return ast.dump(Renamer(subjects, user_attrs, old, new).visit(tree))


class C17(HistoryProfile):
  prop = "C17"
  name = "c17"
  technique = ("deterministic simulation: documents with access rules, ACL resources, user-attribute "
               "rules, dropdown conditions and trigger conditions (incl. unparseable ones), then column "
               "and table renames by every path through seeded histories with undo/redo; an independent "
               "ast rename as reference, and parsed == parse(text) as a state invariant")
  max_events = 28
  p_undo = 0.08
  p_redo_after_undo = 0.6

  def config(self, rng, tier):
    return {"max_events": rng.randint(8, self.max_events), "p_undo": self.p_undo}

  def first_events(self, sim, g, cfg):
    return [{"k": "open"},
            {"k": "bundle", "ops": ["rules_schema"], "a": [
              ["AddTable", "A", [{"id": "x", "type": "Int", "isFormula": False},
                                 {"id": "y", "type": "Int", "isFormula": False},
                                 {"id": "z", "type": "Text", "isFormula": False}]],
              ["AddTable", "B", [{"id": "p", "type": "Int", "isFormula": False},
                                 {"id": "q", "type": "Text", "isFormula": False},
                                 {"id": "ra", "type": "Ref:A", "isFormula": False},
                                 {"id": "la", "type": "RefList:A", "isFormula": False}]],
              ["AddTable", "Users", [{"id": "Email", "type": "Text", "isFormula": False},
                                     {"id": "Team", "type": "Text", "isFormula": False}]],
              ["AddRecord", "_grist_ACLResources", -1, {"tableId": "*", "colIds": "*"}],
              ["AddRecord", "_grist_ACLRules", None, {
                "resource": -1, "userAttributes": json.dumps(
                  {"name": "Att", "tableId": "Users", "lookupColId": "Email", "charId": "Email"})}],
              ["AddRecord", "_grist_ACLRules", None, {
                "resource": -1, "userAttributes": json.dumps(
                  {"name": "Att2", "tableId": "B", "lookupColId": "q", "charId": "Name"})}]]}]

  # -- generation -------------------------------------------------------------------------------
  def next_event(self, sim, g, cfg, st, i):
    rng = g.rng
    dv = DocView(sim.sigma)
    r = rng.random()
    if r < cfg["p_undo"] and sim.ptr > 1:
      if rng.random() < self.p_redo_after_undo:
        st.setdefault("pending", []).append({"k": "redo"})
      return {"k": "undo"}
    if st.get("pending"):
      return st["pending"].pop(0)
    tabs = [t for t in gen.data_tables(dv)]
    if not tabs:
      return None
    def cols_of(t):
      return [c.colId for c in t.user_cols()]
    users = next((t for t in tabs if "Email" in t.cols or "Team" in t.cols), None)
    ucol = rng.choice(cols_of(users)) if users and cols_of(users) else "Email"
    def fill(tpl, t, reft=None):
      cs = cols_of(t) or ["x"]
      ks = cols_of(reft) if reft is not None and cols_of(reft) else cs
      return (tpl.replace("{c1}", rng.choice(cs)).replace("{c2}", rng.choice(cs))
              .replace("{u}", ucol).replace("{k}", rng.choice(ks)))
    if r < 0.30:
      # add a resource + rule
      t = rng.choice(tabs)
      cs = cols_of(t)
      colids = rng.choice(["*", ",".join(rng.sample(cs, rng.randint(1, min(3, len(cs))))) if cs else "*"])
      f = fill(rng.choice(ACL_FORMULAS), t)
      return {"k": "bundle", "ops": ["add_rule"], "a": [
        ["AddRecord", "_grist_ACLResources", -1, {"tableId": t.tableId, "colIds": colids}],
        ["AddRecord", "_grist_ACLRules", None, {"resource": -1, "aclFormula": f, "permissionsText": "+R"}]]}
    if r < 0.40:
      cands = [(t, c) for t in tabs for c in t.user_cols()]
      t, c = rng.choice(cands)
      reft = dv.tables.get(c.target) if c.target else None
      f = fill(rng.choice(DROPDOWN_FORMULAS), t, reft)
      wo = {"dropdownCondition": {"text": f}}
      if to_tree(f) is None:
        # an unparseable text can only be stored when the client supplies `parsed` itself
        wo["dropdownCondition"]["parsed"] = ["Const", 0]
      if rng.random() < 0.3:
        wo["alignment"] = "left"
      return {"k": "bundle", "ops": ["add_dropdown"], "a": [
        ["ModifyColumn", t.tableId, c.colId, {"widgetOptions": json.dumps(wo)}]]}
    if r < 0.48:
      t = rng.choice(tabs)
      f = fill(rng.choice(TRIGGER_FORMULAS), t)
      cond = rng.choice([f, json.dumps({"text": f}), json.dumps({"text": f, "extra": [1]})])
      if to_tree(f) is None:
        cond = json.dumps({"text": f, "parsed": ["Const", 0]})
      elif rng.random() < 0.35:
        # config mode (a custom expression with its own parsed form), alone or next to a text
        f2 = fill(rng.choice(TRIGGER_FORMULAS), t)
        if to_tree(f2) is not None:
          cd = {"config": {"customExpression": f2, "columnFilters": []}}
          if rng.random() < 0.5:
            cd["text"] = f
          cond = json.dumps(cd)
      return {"k": "bundle", "ops": ["add_trigger"], "a": [
        ["AddRecord", "_grist_Triggers", None, {"tableRef": t.ref, "condition": cond,
                                                "eventTypes": ["L", "add"], "enabled": True}]]}
    if r < 0.55:
      rules = [(rid, rec) for rid, rec in dv.records("_grist_ACLRules") if rec.get("aclFormula")]
      if rules:
        rid, rec = rng.choice(rules)
        res = dict(dv.records("_grist_ACLResources")).get(rec["resource"])
        t = dv.tables.get(res["tableId"]) if res else None
        if t is not None:
          return {"k": "bundle", "ops": ["edit_rule"], "a": [
            ["UpdateRecord", "_grist_ACLRules", rid, {"aclFormula": fill(rng.choice(ACL_FORMULAS), t)}]]}
    if r < 0.58:
      # a user-attribute rule that comes after (has a higher row id than) rules already using it;
      # or the first one removed and added again, which moves it behind them as well
      rules = list(dv.records("_grist_ACLRules"))
      names = {}
      for rid, rec in rules:
        try:
          names[json.loads(rec.get("userAttributes") or "{}").get("name")] = rid
        except ValueError:
          pass
      if users is not None and "Att3" not in names:
        return {"k": "bundle", "ops": ["add_user_attr"], "a": [
          ["AddRecord", "_grist_ACLRules", None, {"resource": rules[0][1]["resource"] if rules else -1,
            "userAttributes": json.dumps({"name": "Att3", "tableId": users.tableId,
                                          "lookupColId": ucol, "charId": "Email"})}]]}
      if users is not None and "Att" in names and rng.random() < 0.5:
        rec = dict(rules)[names["Att"]]
        return {"k": "bundle", "ops": ["readd_user_attr"], "a": [
          ["RemoveRecord", "_grist_ACLRules", names["Att"]],
          ["AddRecord", "_grist_ACLRules", None, {"resource": rec["resource"],
                                                  "userAttributes": rec["userAttributes"]}]]}
    if r < 0.62:
      return {"k": "bundle", "ops": ["data"], "a": [["AddRecord", rng.choice(tabs).tableId, None, {}]]}
    # a rename
    from .models import op_rename_any
    acts = op_rename_any(g, dv, set())
    if not acts:
      return {"k": "bundle", "ops": ["noop"], "a": [["Calculate"]]}
    return {"k": "bundle", "ops": ["rename_any"], "a": acts}

  # -- the stored predicate texts of a snapshot -------------------------------------------------------
  @staticmethod
  def predicates(snap):
    """[(key, kind, text, parsed_json_or_None, context)] for every stored predicate formula."""
    dv = DocView(snap)
    out = []
    resources = dict(dv.records("_grist_ACLResources"))
    attrs = {}     # user attribute name -> lookup table id
    for rid, rec in dv.records("_grist_ACLRules"):
      ua = rec.get("userAttributes")
      if ua:
        try:
          info = json.loads(ua)
          attrs[info.get("name")] = info.get("tableId")
        except ValueError:
          pass
    for rid, rec in dv.records("_grist_ACLRules"):
      res = resources.get(rec.get("resource"))
      out.append((("acl", rid), "acl", rec.get("aclFormula") or "", rec.get("aclFormulaParsed") or "",
                  {"table": res["tableId"] if res else None, "attrs": dict(attrs)}))
    for c in dv.all_cols():
      if not c.widgetOptions:
        continue
      try:
        wo = json.loads(c.widgetOptions)
        dc = wo["dropdownCondition"]
        text = dc["text"]
      except (ValueError, KeyError, TypeError):
        continue
      out.append((("dc", c.ref), "dc", text, dc.get("parsed"),
                  {"table": c.table.tableId, "ref_table": c.target, "attrs": dict(attrs)}))
    for rid, rec in dv.records("_grist_Triggers"):
      cond = rec.get("condition")
      if not cond:
        continue
      try:
        cd = json.loads(cond)
      except ValueError:
        continue
      if not isinstance(cd, dict):
        continue
      t = dv.table_by_ref.get(rec.get("tableRef"))
      if "text" in cd:
        out.append((("trig", rid), "trig", cd["text"], cd.get("parsed"),
                    {"table": t.tableId if t else None, "attrs": {}}))
      # config mode: a second predicate text next to (or instead of) the first
      cfgd = cd.get("config")
      if isinstance(cfgd, dict) and isinstance(cfgd.get("customExpression"), str) and cfgd["customExpression"]:
        out.append((("trigcfg", rid), "trig", cfgd["customExpression"], cfgd.get("customExpressionParsed"),
                    {"table": t.tableId if t else None, "attrs": {}}))
    return out, dv

  def check(self, sim, out, st):
    ev = out.ev
    if not out.ok or ev["k"] not in ("bundle", "undo", "redo"):
      return
    import predicate_formula
    post_preds, dvq = self.predicates(sim.sigma)
    # state invariant: stored parsed form == parse of stored text
    for key, kind, text, parsed, ctx in post_preds:
      if to_tree(text) is None or not text.strip():
        continue
      try:
        want = predicate_formula.parse_predicate_formula(text)
      except SyntaxError:
        continue        # outside the supported subset (C40's matter): nothing to compare
      have = parsed
      if isinstance(have, str):
        try:
          have = json.loads(have) if have else None
        except ValueError:
          have = "unparseable-json"
      if have is None and kind != "acl":
        continue        # parsed form not filled in for this one (e.g. client-provided 'parsed')
      if json.loads(json.dumps(want)) != have:
        raise vio(sim, "parsed-vs-text", "%s %s: text %r parses to %s but stored parsed form is %s" % (
          kind, key[1], text, json.dumps(want)[:200], json.dumps(have)[:200]))
      sim.count("oracle.parsed_matches_text")
    if ev["k"] != "bundle" or "rename_any" not in ev.get("ops", ()) or out.pre is None:
      return
    pre_preds, dvp = self.predicates(out.pre)
    # which column / table got renamed (by metadata row id)
    col_ren = {}
    for ref, c in dvp.col_by_ref.items():
      c2 = dvq.col_by_ref.get(ref)
      if c2 is not None and c2.colId != c.colId:
        col_ren[(c.table.tableId, c.colId)] = c2.colId
    tab_ren = {}
    for ref, t in dvp.table_by_ref.items():
      t2 = dvq.table_by_ref.get(ref)
      if t2 is not None and t2.tableId != t.tableId:
        tab_ren[t.tableId] = t2.tableId
    post_by_key = {p[0]: p for p in post_preds}
    checked = 0
    for key, kind, text, parsed, ctx in pre_preds:
      if key not in post_by_key:
        continue
      new_text = post_by_key[key][2]
      tree = to_tree(text)
      if tree is None:
        if new_text != text:
          raise vio(sim, "invalid-formula-touched", "%s %s: unparseable %r became %r" % (kind, key[1], text, new_text))
        checked += 1
        continue
      exp = ast.dump(tree)
      for (tid, old), new in col_ren.items():
        subjects, uattrs = set(), set()
        if kind == "acl":
          if ctx["table"] == tid:
            subjects = {"rec", "newRec"}
          uattrs = {a for a, t in ctx["attrs"].items() if t == tid}
        elif kind == "dc":
          if ctx["table"] == tid:
            subjects.add("rec")
          if ctx.get("ref_table") == tid:
            subjects.add("choice")
        else:
          if ctx["table"] == tid:
            subjects = {"rec", "oldRec"}
        if subjects or uattrs:
          t2 = to_tree(text)
          # apply successive renames on the evolving tree text is unnecessary: one rename per bundle
          exp = ast.dump(Renamer(subjects, uattrs, old, new).visit(ast.parse(fx.to_py(text).strip(), mode="eval")))
      got_tree = to_tree(new_text)
      if got_tree is None or ast.dump(got_tree) != exp:
        raise vio(sim, "rename-tree", "%s %s (table %s): %r became %r after %s; expected tree %s" % (
          kind, key[1], ctx["table"], text, new_text, json.dumps(ev["a"], default=repr)[:160], exp[:300]))
      # all other text untouched: token diff
      if new_text != text:
        old_t, new_t = _TOKEN.findall(text), _TOKEN.findall(new_text)
        names = {o: n for (_t, o), n in col_ren.items()}
        ok = len(old_t) == len(new_t) and all(
          a == b or (a.lstrip("$") in names and b == a.replace(a.lstrip("$"), names[a.lstrip("$")]))
          for a, b in zip(old_t, new_t))
        if not ok:
          raise vio(sim, "rename-text", "%s %s: %r -> %r changes more than the renamed tokens" % (kind, key[1], text, new_text))
        sim.count("probe.predicates_rewritten")
      checked += 1
    # resources and user attributes
    pre_res = dict(dvp.records("_grist_ACLResources"))
    post_res = dict(dvq.records("_grist_ACLResources"))
    for rid, rec in pre_res.items():
      if rid not in post_res:
        continue
      tid = rec["tableId"]
      exp_tid = tab_ren.get(tid, tid)
      cols = rec["colIds"]
      if cols and cols != "*":
        exp_cols = ",".join(col_ren.get((tid, c), c) for c in cols.split(","))
      else:
        exp_cols = cols
      if post_res[rid]["tableId"] != exp_tid or post_res[rid]["colIds"] != exp_cols:
        raise vio(sim, "resource-rename", "resource %s (%s: %s) became (%s: %s), expected (%s: %s)" % (
          rid, tid, cols, post_res[rid]["tableId"], post_res[rid]["colIds"], exp_tid, exp_cols))
      checked += 1
    pre_rules = dict(dvp.records("_grist_ACLRules"))
    post_rules = dict(dvq.records("_grist_ACLRules"))
    for rid, rec in pre_rules.items():
      ua = rec.get("userAttributes")
      if not ua or rid not in post_rules:
        continue
      info = json.loads(ua)
      exp = dict(info)
      exp["lookupColId"] = col_ren.get((info.get("tableId"), info.get("lookupColId")), info.get("lookupColId"))
      exp["tableId"] = tab_ren.get(info.get("tableId"), info.get("tableId"))
      now = json.loads(post_rules[rid]["userAttributes"])
      if now != exp:
        raise vio(sim, "user-attribute-rename", "rule %s userAttributes %s became %s, expected %s" % (rid, info, now, exp))
      checked += 1
    sim.count("oracle.rule_renames", checked)
    if col_ren or tab_ren:
      sim.count("oracle.nontrivial")
      sim.shapes.add("%s/%d/%s" % (ev["a"][0][0], len(pre_preds), sorted(set(p[1] for p in pre_preds))))

  def rule_text(self):
    return ("one case = one seeded history that adds rules/resources/user attributes/dropdown and "
            "trigger conditions from a pool of %d predicate texts (valid and unparseable) and renames "
            "columns and tables; non-trivial = a rename took effect and the stored predicates were "
            "compared with the independent ast rename" % (len(ACL_FORMULAS) + len(DROPDOWN_FORMULAS) + len(TRIGGER_FORMULAS)))


PROFILES = [C17()]
