"""
History profiles: C02 (replica), C07 (reopen), C05 (from scratch), C01 (undo), C03 (redo).
"""
from .. import eq, gen, fx
from ..docview import DocView
from ..profile import Profile, vio
from ..sim import Violation


class HistoryProfile(Profile):
  """Random D0 histories with optional undo/redo/restart/tick events mixed in by cfg."""
  p_undo = 0.0
  p_redo_after_undo = 0.0
  p_restart = 0.0
  p_tick = 0.02
  restart_modes = ("reported",)

  def config(self, rng, tier):
    cfg = super(HistoryProfile, self).config(rng, tier)
    cfg["p_undo"] = self.p_undo * rng.choice([0.5, 1, 2])
    cfg["p_restart"] = self.p_restart * rng.choice([0, 1, 2])
    cfg["p_tick"] = self.p_tick
    return cfg

  def next_event(self, sim, g, cfg, st, i):
    r = g.rng.random()
    if st.get("pending"):
      return st["pending"].pop(0)
    if r < cfg["p_undo"]:
      if sim.ptr > sim.base:
        if g.rng.random() < self.p_redo_after_undo:
          st.setdefault("pending", []).append({"k": "redo"})
        return {"k": "undo"}
    elif r < cfg["p_undo"] + cfg["p_restart"]:
      return {"k": "restart", "mode": g.rng.choice(self.restart_modes)}
    elif r < cfg["p_undo"] + cfg["p_restart"] + cfg["p_tick"]:
      return {"k": "tick", "dt": g.rng.choice([1, 60, 86400]), "update": g.rng.random() < 0.5}
    return super(HistoryProfile, self).next_event(sim, g, cfg, st, i)

  def step(self, sim, ev, st):
    out = sim.do(ev)
    for n in ev.get("ops", ()):
      sim.count("op." + n)
    if out.ok is False and ev["k"] == "bundle":
      sim.count("probe.bundle_rejected")
      # which kind of refusal: the engine's own checks (ValueError and friends) or a failure
      # somewhere inside it
      sim.count("probe.bundle_rejected_with_" + str(out.error).split(" ", 1)[0].split(":")[0][:30])
    self.check(sim, out, st)
    return out

  def note_nontrivial(self, sim, out, oracle):
    sim.count("oracle." + oracle)
    changed = out.pre is None or out.pre is not out.post and bool(out.stored)
    if changed:
      sim.count("oracle.nontrivial")
      sim.shapes.add("%s/%s/%s" % (self.shape(sim), out.ev["k"], ",".join(out.ev.get("ops", ()))))


# -- C02 ------------------------------------------------------------------------------------------

def check_replica(sim, out, prop="C02"):
  if sim.store_errors:
    raise vio(sim, "replica-apply", sim.store_errors[0], prop)
  d = eq.diff(sim.store.snapshot(), sim.sigma)
  if d:
    raise vio(sim, "replica-state", "; ".join(d[:4]) + "  (A=replica, B=engine)", prop)


class C02(HistoryProfile):
  prop = "C02"
  name = "c02"
  technique = ("deterministic simulation: seeded histories replicated into an independent "
               "doc-action interpreter over the real Sandbox pipe, with crash/restart from the replica")
  p_undo = 0.08
  p_redo_after_undo = 0.5
  p_restart = 0.04
  restart_modes = ("store",)

  def check(self, sim, out, st):
    k = out.ev["k"]
    if out.ok:
      if len(out.direct) != len(out.stored):
        raise vio(sim, "direct-parallel", "len(direct)=%d len(stored)=%d" % (
          len(out.direct), len(out.stored)))
      if out.extra.get("calc"):
        raise vio(sim, "calc-nonempty", "calc list not empty: %r" % (out.extra["calc"][:2],))
    if k == "restart":
      if not out.ok:
        raise vio(sim, "restart-from-replica", "loading the replica failed: %s" % out.error)
      # (That Calculate emits nothing at all is C07's claim; here the durable copy must reproduce
      # the same observable state, and whatever Calculate emits goes through the replica check.)
      d = eq.diff(out.extra["old_sigma"], out.post)
      if d:
        raise vio(sim, "restart-from-replica", "state differs after restart: " + "; ".join(d[:4]))
      sim.count("probe.restart_from_replica")
    if out.ok is False:
      sim.count("probe.replica_checked_after_rejection")
    check_replica(sim, out)
    self.note_nontrivial(sim, out, "replica")


# -- C07 ------------------------------------------------------------------------------------------

class C07(HistoryProfile):
  prop = "C07"
  name = "c07"
  technique = ("deterministic simulation: crash/restart of the sandbox at seeded points, reload "
               "through the real load_meta_tables/load_table/_decode_db_value path")
  p_restart = 0.18
  p_undo = 0.04
  p_redo_after_undo = 0.5

  def base_weights(self):
    w = dict(gen.DEFAULT_WEIGHTS)
    w.update({"error_trigger": 2, "trigger_column": 2})
    return w

  def config(self, rng, tier):
    cfg = super(C07, self).config(rng, tier)
    cfg["p_restart"] = self.p_restart * rng.choice([0.5, 1, 2])
    cfg["formula_kinds"] = list(gen.DEFAULT_FORMULA_KINDS) + ["dictval", "dictval"]
    return cfg

  def check(self, sim, out, st):
    if out.ev["k"] != "restart":
      return
    if not out.ok:
      raise vio(sim, "reopen-failed", "reopening the reported document failed: %s" % out.error)
    if out.stored:
      raise vio(sim, "reopen-calculate-emits",
                "Calculate after reopen emitted %d stored action(s): %r" % (
                  len(out.stored), out.stored[:3]))
    d = eq.diff(out.extra["old_sigma"], out.post)
    if d:
      raise vio(sim, "reopen-state", "reopened engine reports different data: " + "; ".join(d[:4]))
    # Error values *stored* in data columns (raised by trigger formulas) are data like any other:
    # they come back exactly, with their message and the record of what the cell held before
    # (everything but the traceback text). eq.diff above compares error cells by class only.
    old, new = out.extra["old_sigma"], out.post
    dv = DocView(new)
    for t in dv.user_tables(include_summary=True):
      if t.tableId not in old:
        continue
      for c in t.cols.values():
        if c.isFormula or c.colId not in new[t.tableId][3] or c.colId not in old[t.tableId][3]:
          continue
        before = dict(zip(old[t.tableId][2], old[t.tableId][3][c.colId]))
        for r, v in zip(new[t.tableId][2], new[t.tableId][3][c.colId]):
          b = before.get(r)
          if isinstance(b, list) and b and b[0] == "E":
            sim.count("probe.stored_error_cells_compared")
            if not (isinstance(v, list) and [b[:3], b[4:]] == [v[:3], v[4:]]):
              raise vio(sim, "reopen-state", "stored error value %s[%s].%s came back as %r, was %r" % (
                t.tableId, r, c.colId, v, b))
    sim.count("oracle.reopen")
    sim.count("oracle.nontrivial")
    sim.shapes.add("%s/restart" % self.shape(sim))

  def finish(self, sim, st):
    self.step(sim, {"k": "restart", "mode": "reported"}, st)


# -- C05 ------------------------------------------------------------------------------------------

def check_from_scratch(sim, prop="C05"):
  snap, err = sim.from_scratch()
  if err is not None:
    raise vio(sim, "from-scratch-load", "fresh engine failed to load/calculate: %s" % err, prop)
  d = eq.diff(sim.sigma, snap)
  if d:
    raise vio(sim, "from-scratch", "; ".join(d[:4]) + "  (A=incremental, B=from scratch)", prop)


class C05(HistoryProfile):
  prop = "C05"
  name = "c05"
  technique = ("deterministic simulation: seeded edit histories; at seeded points a side engine is "
               "restarted from metadata + data columns only and recalculates from scratch")
  p_undo = 0.05
  p_redo_after_undo = 0.3
  max_events = 36

  def base_weights(self):
    w = dict(gen.DEFAULT_WEIGHTS)
    w.update({"add_formula_column": 14, "modify_formula": 5, "update_records": 18,
              "add_summary": 4, "add_summary_formula": 2, "modify_type": 4, "rename_column": 3})
    return w

  def config(self, rng, tier):
    cfg = super(C05, self).config(rng, tier)
    cfg["check_every"] = rng.choice([1, 2, 3, 5])
    return cfg

  def check(self, sim, out, st):
    st["n"] = st.get("n", 0) + 1
    if out.ok and out.ev["k"] in ("bundle", "undo", "redo") and st["n"] % sim_cfg(st, "check_every", 1) == 0:
      check_from_scratch(sim)
      self.note_nontrivial(sim, out, "from_scratch")

  def init_state(self, sim, cfg):
    return {"cfg": cfg}

  def finish(self, sim, st):
    check_from_scratch(sim)


def sim_cfg(st, key, default):
  return (st.get("cfg") or {}).get(key, default)


# -- C01 / C03 ------------------------------------------------------------------------------------

def _data_only_equal(sim, a, b):
  """True when snapshots a and b agree on everything except formula-column values."""
  dv = DocView(b)
  ign = {}
  for t in dv.tables.values():
    ign[t.tableId] = [c.colId for c in t.cols.values() if c.isFormula]
  if eq.diff(a, b, ignore_cols=ign):
    return False
  # ... and "agree" is meant strictly here: 5 and 5.0 are observably equal, but the engine treats a
  # float in an Int column as alt text, so formula values may legitimately follow from it.
  for tid, td in b.items():
    if tid not in a:
      return False
    skip = set(ign.get(tid, ()))
    for c, vals in td[3].items():
      if c in skip or c not in a[tid][3]:
        continue
      for x, y in zip(a[tid][3][c], vals):
        if type(x) is not type(y) and isinstance(x, (int, float)) and isinstance(y, (int, float)):
          return False
  return True


class UndoRedoProfile(HistoryProfile):
  p_undo = 0.3
  p_redo_after_undo = 0.7
  p_restart = 0.05
  check_undo = True
  check_redo = False

  def _guard(self, sim, expected, oracle):
    """Attribution guard (DESIGN 8.2): if the recorded oracle state differs from the current
    state only in formula cells and the *current* state is from-scratch consistent, the recorded
    state was stale (a C05 matter), not an undo/redo failure."""
    if _data_only_equal(sim, expected, sim.sigma):
      snap, err = sim.from_scratch()
      if err is None and not eq.diff(sim.sigma, snap):
        sim.count("probe.guard_stale_oracle_state")
        return True
    return False

  def check(self, sim, out, st):
    k = out.ev["k"]
    if k == "undo" and out.ok is not None and self.check_undo:
      e = out.extra["entry"]
      if not out.ok:
        raise vio(sim, "undo-raised", "ApplyUndoActions failed: %s" % out.error)
      d = eq.diff(e.pre, out.post)
      if d and not self._guard(sim, e.pre, "undo"):
        raise vio(sim, "undo-state", "; ".join(d[:4]) + "  (A=before bundle, B=after undo)")
      self.note_undo_probes(sim, e)
      sim.count("oracle.undo")
      sim.count("oracle.nontrivial")
      sim.shapes.add("%s/undo/%s" % (self.shape(sim), ",".join(sorted(set(a[0] for a in e.actions)))))
    if k == "redo" and out.ok is not None and self.check_redo:
      e = out.extra["entry"]
      if not out.ok:
        raise vio(sim, "redo-raised", "ApplyDocActions failed: %s" % out.error)
      d = eq.diff(e.post, out.post)
      if d and not self._guard(sim, e.post, "redo"):
        raise vio(sim, "redo-state", "; ".join(d[:4]) + "  (A=after bundle, B=after undo+redo)")
      sim.count("oracle.redo")
      sim.count("oracle.nontrivial")
      sim.shapes.add("%s/redo/%s" % (self.shape(sim), ",".join(sorted(set(a[0] for a in e.actions)))))

  def note_undo_probes(self, sim, e):
    names = [a[0] for a in e.undo]
    acts = set(a[0] for a in e.actions)
    if "RenameColumn" in names or "RenameTable" in names:
      sim.count("probe.undo_with_rename")
    if "AddTable" in names:
      sim.count("probe.undo_of_table_removal")
    if "ModifyColumn" in names:
      sim.count("probe.undo_with_modify_column")
    if len(e.actions) > 1:
      sim.count("probe.undo_multi_action_bundle")
    if acts & {"CreateViewSection", "UpdateSummaryViewSection", "DetachSummaryViewSection"}:
      sim.count("probe.undo_summary_change")


class C01(UndoRedoProfile):
  prop = "C01"
  name = "c01"
  technique = ("deterministic simulation: seeded histories with undo as a scheduled event "
               "(also after a sandbox restart), whole-history unwinding at the end")

  def finish(self, sim, st):
    # Unwind the whole remaining log, bundle by bundle, in reverse order.
    while sim.ptr > sim.base:
      self.step(sim, {"k": "undo"}, st)
    d = eq.diff(sim.sigma0, sim.sigma)
    if d:
      raise vio(sim, "unwind-to-start", "; ".join(d[:4]) + "  (A=start, B=after undoing all)")
    sim.count("probe.full_unwind")


class C03(UndoRedoProfile):
  prop = "C03"
  name = "c03"
  technique = ("deterministic simulation: seeded histories with undo then redo "
               "(ApplyDocActions of the original stored actions), also across a sandbox restart")
  check_undo = False
  check_redo = True
  p_redo_after_undo = 1.0

  def next_event(self, sim, g, cfg, st, i):
    ev = super(C03, self).next_event(sim, g, cfg, st, i)
    if ev["k"] == "undo" and g.rng.random() < 0.15:
      # crash between undo and redo
      st.setdefault("pending", []).insert(0, {"k": "restart", "mode": "reported"})
    return ev


PROFILES = [C02(), C07(), C05(), C01(), C03()]
