"""
History profiles: C02 (replica), C07 (reopen), C05 (from scratch), C01 (undo), C03 (redo).
"""
from .. import eq, gen, fx
from ..docview import DocView
from ..profile import Profile, vio
from ..sim import Violation


class HistoryProfile(Profile):
  """Random D0 histories with optional undo/redo/restart/tick events mixed in by cfg."""
  p_undo = 0.0
  p_redo_after_undo = 0.0
  p_restart = 0.0
  p_tick = 0.02
  restart_modes = ("reported",)

  def config(self, rng, tier):
    cfg = super(HistoryProfile, self).config(rng, tier)
    cfg["p_undo"] = self.p_undo * rng.choice([0.5, 1, 2])
    cfg["p_restart"] = self.p_restart * rng.choice([0, 1, 2])
    cfg["p_tick"] = self.p_tick
    return cfg

  def next_event(self, sim, g, cfg, st, i):
    r = g.rng.random()
    if st.get("pending"):
      return st["pending"].pop(0)
    if r < cfg["p_undo"] and sim.ptr > sim.base:
      if g.rng.random() < self.p_redo_after_undo:
        st.setdefault("pending", []).append({"k": "redo"})
      return {"k": "undo"}
    r -= cfg["p_undo"]
    if r < cfg["p_restart"]:
      return {"k": "restart", "mode": g.rng.choice(self.restart_modes)}
    r -= cfg["p_restart"]
    if r < cfg["p_tick"]:
      return {"k": "tick", "dt": g.rng.choice([1, 60, 86400]), "update": g.rng.random() < 0.5}
    return super(HistoryProfile, self).next_event(sim, g, cfg, st, i)

  def step(self, sim, ev, st):
    out = sim.do(ev)
    for n in ev.get("ops", ()):
      sim.count("op." + n)
    if out.ok is False and ev["k"] == "bundle":
      sim.count("probe.bundle_rejected")
    self.check(sim, out, st)
    return out

  def note_nontrivial(self, sim, out, oracle):
    sim.count("oracle." + oracle)
    changed = out.pre is None or out.pre is not out.post and bool(out.stored)
    if changed:
      sim.count("oracle.nontrivial")
      sim.shapes.add("%s/%s/%s" % (self.shape(sim), out.ev["k"], ",".join(out.ev.get("ops", ()))))


# -- C02 ------------------------------------------------------------------------------------------

def check_replica(sim, out, prop="C02"):
  if sim.store_errors:
    raise vio(sim, "replica-apply", sim.store_errors[0], prop)
  d = eq.diff(sim.store.snapshot(), sim.sigma)
  if d:
    raise vio(sim, "replica-state", "; ".join(d[:4]) + "  (A=replica, B=engine)", prop)


class C02(HistoryProfile):
  prop = "C02"
  name = "c02"
  technique = ("deterministic simulation: seeded histories replicated into an independent "
               "doc-action interpreter over the real Sandbox pipe, with crash/restart from the replica")
  p_undo = 0.08
  p_redo_after_undo = 0.5
  p_restart = 0.04
  restart_modes = ("store",)

  def check(self, sim, out, st):
    k = out.ev["k"]
    if out.ok:
      if len(out.direct) != len(out.stored):
        raise vio(sim, "direct-parallel", "len(direct)=%d len(stored)=%d" % (
          len(out.direct), len(out.stored)))
      if out.extra.get("calc"):
        raise vio(sim, "calc-nonempty", "calc list not empty: %r" % (out.extra["calc"][:2],))
    if k == "restart":
      if not out.ok:
        raise vio(sim, "restart-from-replica", "loading the replica failed: %s" % out.error)
      if out.stored:
        raise vio(sim, "restart-from-replica",
                  "Calculate after restart from replica emitted %r" % (out.stored[:3],))
      d = eq.diff(out.extra["old_sigma"], out.post)
      if d:
        raise vio(sim, "restart-from-replica", "state differs after restart: " + "; ".join(d[:4]))
      sim.count("probe.restart_from_replica")
    check_replica(sim, out)
    self.note_nontrivial(sim, out, "replica")


PROFILES = [C02()]
