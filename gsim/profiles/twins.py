"""
Twin / fault / schedule / transport profiles: C04 (fault injection), C08 (schema), C06 (schedule),
C18 (cycles), C29 (read interleaving), C30 (process configuration), C24 (transport).
"""
import json
import os
import random

from .. import eq, gen, fx, faults, boot
from ..docview import DocView
from ..profile import Profile, vio
from ..proc import EngineProc
from ..sim import Sim, Violation, split_reply, Outcome, StopRun
from .core import HistoryProfile, check_from_scratch


# -- shared monitors -----------------------------------------------------------------------------

def schema_from_meta(snap):
  """{table_id: {col_id: (type, isFormula, formula, reverseColId)}} rebuilt from the metadata
  tables as reported through the pipe (independent of schema.build_schema)."""
  dv = DocView(snap)
  out = {}
  for t in dv.tables.values():
    cols = {}
    for c in t.cols.values():
      rev = dv.col_by_ref.get(c.reverseCol)
      cols[c.colId] = (c.type, bool(c.isFormula), c.formula, rev.colId if rev is not None else None)
    out[t.tableId] = cols
  return out


def schema_of_engine(engine):
  out = {}
  for tid, st in engine.schema.items():
    if tid.startswith("_grist_"):
      continue
    out[tid] = {cid: (c.type, bool(c.isFormula), c.formula, c.reverseColId)
                for cid, c in st.columns.items()}
  return out


def check_schema(sim, proc, snap, prop, when):
  a = schema_of_engine(proc.engine)
  b = schema_from_meta(snap)
  if a != b:
    detail = []
    for tid in sorted(set(a) | set(b)):
      if a.get(tid) != b.get(tid):
        ca, cb = a.get(tid), b.get(tid)
        if ca is None or cb is None:
          detail.append("table %s: engine=%s metadata=%s" % (
            tid, "absent" if ca is None else "present", "absent" if cb is None else "present"))
        else:
          for cid in sorted(set(ca) | set(cb)):
            if ca.get(cid) != cb.get(cid):
              detail.append("%s.%s: engine=%r metadata=%r" % (tid, cid, ca.get(cid), cb.get(cid)))
    raise vio(sim, "schema-vs-metadata", "%s: %s" % (when, "; ".join(detail[:4])), prop)
  # stray column records
  trefs = set(snap["_grist_Tables"][2])
  parents = set(snap["_grist_Tables_column"][3]["parentId"])
  if not parents <= trefs:
    raise vio(sim, "stray-column-records",
              "%s: column records of nonexistent tables %s" % (when, sorted(parents - trefs)), prop)
  # user tables in engine.tables match
  eng_user = set(t for t in proc.engine.tables if not t.startswith("_grist_"))
  if eng_user != set(b):
    raise vio(sim, "engine-tables", "%s: engine.tables=%s metadata=%s" % (
      when, sorted(eng_user), sorted(b)), prop)


def _canon_action(a):
  # The order of the column list inside an AddTable action carries no meaning (column order is the
  # parentPos metadata). It follows the insertion order of the engine's internal schema dict, which
  # a rolled-back RemoveColumn changes (the column is re-added at the end): not a trace in the
  # sense of the property (tables, metadata and schema content are as before).
  if a and a[0] == "AddTable" and isinstance(a[2], list):
    return [a[0], a[1], sorted(a[2], key=lambda c: str(c.get("id")) if isinstance(c, dict) else "")]
  return a


def reply_key(value):
  stored, undo, direct, calc, ret = split_reply(value)
  return eq.norm([[_canon_action(a) for a in stored], [_canon_action(a) for a in undo], direct, ret])


# -- invalid actions (natural failures, F5) ---------------------------------------------------------

def gen_bad_action(g, dv):
  """A user action that the engine must reject."""
  rng = g.rng
  ts = gen.data_tables(dv)
  choices = ["unknown_table", "too_high_id"]
  if ts:
    choices += ["unknown_col", "missing_row", "formula_write", "unknown_col_remove", "dup_id",
                "bad_upsert", "remove_missing_table_col", "bad_type_modify", "bad_type_meta",
                "bad_type_add", "remove_missing_table", "bad_doc_rename_table", "bad_doc_rename_col",
                "bad_doc_add_col"]
  kind = rng.choice(choices)
  t = rng.choice(ts) if ts else None
  if kind == "unknown_table":
    return kind, ["AddRecord", "NoSuchTable", None, {}]
  if kind == "too_high_id":
    return kind, ["AddRecord", t.tableId if t else "NoSuchTable", 1000001 + rng.randint(0, 5), {}]
  if kind == "unknown_col":
    return kind, ["AddRecord", t.tableId, None, {"no_such_col": 1}]
  if kind == "missing_row":
    cols = gen.writable_cols(dv, t)
    if cols:
      c = rng.choice(cols)
      return kind, ["UpdateRecord", t.tableId, max(t.row_ids + [0]) + 7,
                    {c.colId: gen.value_for(g, dv, c, allow_alt=False)}]
    return "unknown_col", ["AddRecord", t.tableId, None, {"no_such_col": 1}]
  if kind == "formula_write":
    fcols = [c for c in t.user_cols() if c.isFormula and c.formula]
    if fcols:
      return kind, ["AddRecord", t.tableId, None, {rng.choice(fcols).colId: 1}]
    return "unknown_col", ["AddRecord", t.tableId, None, {"no_such_col": 1}]
  if kind == "unknown_col_remove":
    return kind, ["RemoveColumn", t.tableId, "no_such_col"]
  if kind == "dup_id":
    if t.row_ids:
      return kind, ["AddRecord", t.tableId, rng.choice(t.row_ids), {}]
    return "unknown_col", ["AddRecord", t.tableId, None, {"no_such_col": 1}]
  if kind == "bad_upsert":
    return kind, ["BulkAddOrUpdateRecord", t.tableId, {}, {}, {"on_many": "bogus"}]
  if kind in ("bad_type_modify", "bad_type_meta"):
    # a type name that does not exist: the failure strikes while the new column object is built
    cols = [c for c in t.user_cols() if not c.summarySourceCol]
    if cols:
      c = rng.choice(cols)
      if kind == "bad_type_modify":
        return kind, ["ModifyColumn", t.tableId, c.colId, {"type": rng.choice(["Bogus", "Integer", "ref:" + t.tableId])}]
      return kind, ["UpdateRecord", "_grist_Tables_column", c.ref, {"type": "NoSuchType"}]
    return "unknown_col", ["AddRecord", t.tableId, None, {"no_such_col": 1}]
  if kind == "bad_type_add":
    return kind, ["AddColumn", t.tableId, g.new_col_id("b"), {"type": "Bogus", "isFormula": False}]
  if kind == "remove_missing_table":
    return kind, ["RemoveTable", "NoSuchTable"]
  if kind.startswith("bad_doc_"):
    # raw doc actions (what undo, redo and the Node side send) with an id that is no identifier:
    # the failure strikes when the generated module is rebuilt, inside the schema doc action
    word = rng.choice(["class", "def", "1x", "a b", "None"])
    if kind == "bad_doc_rename_table":
      return kind, ["ApplyDocActions", [["RenameTable", t.tableId, word]]]
    cols = [c for c in t.user_cols() if not c.summarySourceCol]
    if kind == "bad_doc_rename_col" and cols:
      return kind, ["ApplyDocActions", [["RenameColumn", t.tableId, rng.choice(cols).colId, word]]]
    return kind, ["ApplyDocActions", [["AddColumn", t.tableId, word, {"type": "Int", "isFormula": False, "formula": ""}]]]
  return kind, ["RenameColumn", t.tableId, "no_such_col", "x"]


# -- C04 ------------------------------------------------------------------------------------------

class TwinSim(Sim):
  """Sim with a second engine B that receives the same history as the primary A."""
  def __init__(self, prop):
    super(TwinSim, self).__init__(prop)
    self.twin = None

  def _ev_open(self, ev, out):
    super(TwinSim, self)._ev_open(ev, out)
    self.twin = EngineProc(self.peer, name="B")
    r = self.twin.call("load_empty")
    assert r.ok
    r = self.twin.apply([["InitNewDoc"]])
    assert r.ok
    self.primary.enter()


class C04(HistoryProfile):
  prop = "C04"
  name = "c04"
  level = "fault_enumeration"
  technique = ("deterministic simulation with fault injection: twin engines in lock-step, one "
               "seeded (quick) or every counted (thorough) failure position per selected bundle, "
               "rollback checked against the pre-state and retry checked against the fault-free twin")
  quick_runs = 500
  thorough_runs = 3000          # (each thorough run enumerates up to three bundles in forked clones)
  thorough_budget = 600
  thorough_chunk = 2
  max_events = 22
  p_fault = 0.45
  p_bad = 0.12
  p_finding_kinds = 0.12

  def new_sim(self, cfg):
    return TwinSim(self.prop)

  def init_state(self, sim, cfg):
    sim.fault_kinds = list(cfg.get("kinds", faults.CLAIMED_KINDS))
    return {}

  def config(self, rng, tier):
    cfg = super(C04, self).config(rng, tier)
    cfg["p_fault"] = self.p_fault * rng.choice([0.5, 1, 1.5])
    cfg["p_bad"] = self.p_bad * rng.choice([0, 1, 2])
    # Most runs inject only the kinds for which the property is expected to hold; a minority also
    # injects failures *inside* doc actions, which end in known findings F-i / F-u.
    kinds = rng.sample(list(faults.CLAIMED_KINDS), rng.randint(1, len(faults.CLAIMED_KINDS)))
    if rng.random() < self.p_finding_kinds:
      kinds += rng.sample(list(faults.FINDING_KINDS), rng.randint(1, len(faults.FINDING_KINDS)))
    cfg["kinds"] = sorted(kinds)
    cfg["enumerate"] = (tier == "thorough")
    cfg["enum_p"] = 0.15
    return cfg

  def next_event(self, sim, g, cfg, st, i):
    ev = Profile.next_event(self, sim, g, cfg, st, i)
    r = g.rng.random()
    if r < cfg["p_bad"]:
      dv = DocView(sim.sigma)
      kind, bad = gen_bad_action(g, dv)
      acts = list(ev["a"])
      pos = g.rng.randint(0, len(acts))
      # a valid-then-invalid (or invalid-first) sequence
      acts.insert(pos, bad)
      return {"k": "badbundle", "a": acts, "ops": ev.get("ops", []) + ["bad:" + kind]}
    r -= cfg["p_bad"]
    if r < cfg["p_fault"]:
      out = {"k": "fbundle", "a": ev["a"], "ops": ev.get("ops", []),
             "fault": {"kind": g.rng.choice(cfg["kinds"]), "u": g.rng.random()}}
      if set(cfg["kinds"]) & set(faults.FINDING_KINDS) and g.rng.random() < 0.3:
        # sub-configuration: the fault lands after the `try` of apply_user_actions, in a doc
        # action performed by auto-removal / recalculation side effects (known finding F-l)
        out["fault"]["phase"] = "post"
        out["fault"]["kind"] = g.rng.choice(["F1", "F2rec", "F4"])
      if cfg.get("enumerate") and g.rng.random() < cfg["enum_p"] and st.get("enumerated", 0) < 3:
        st["enumerated"] = st.get("enumerated", 0) + 1      # (bounds the length of one run)
        out["enumerate"] = True
      return out
    return ev

  # -- execution --------------------------------------------------------------------------------
  def step(self, sim, ev, st):
    k = ev["k"]
    for n in ev.get("ops", ()):
      sim.count("op." + n)
    if k == "open":
      return sim.do(ev)
    if k == "bundle":
      return self._lockstep(sim, ev)
    if k == "badbundle":
      return self._bad(sim, ev)
    if k == "fbundle":
      return self._faulted(sim, ev)
    raise AssertionError("unexpected event %r" % (ev,))

  def _lockstep(self, sim, ev):
    out = sim.do(ev)
    rb = sim.twin.apply(ev["a"])
    sim.primary.enter()
    if out.ok != rb.ok:
      raise vio(sim, "twin-agreement", "A.ok=%s B.ok=%s (%s / %s)" % (out.ok, rb.ok, out.error, rb.error))
    if out.ok and reply_key(out.reply) != reply_key(rb.value):
      raise vio(sim, "twin-agreement", "replies differ after an earlier rolled-back fault: A=%s B=%s" % (
        json.dumps(out.stored, default=repr)[:300], json.dumps(split_reply(rb.value)[0], default=repr)[:300]))
    return out

  def _post_failure_checks(self, sim, proc, pre, what, prop_oracle_prefix=""):
    try:
      post = proc.snapshot()
    except AssertionError as e:
      raise vio(sim, prop_oracle_prefix + "rollback-state",
                "%s left a trace: the document cannot be read back (%s)" % (what, str(e)[:200]))
    d = eq.diff(pre, post)
    if d:
      raise vio(sim, prop_oracle_prefix + "rollback-state",
                "%s left a trace: %s  (A=before, B=after failed call)" % (what, "; ".join(d[:4])))
    check_schema(sim, proc, post, self.prop, "after rollback of " + what)
    rc = proc.apply([["Calculate"]])
    if not rc.ok:
      raise vio(sim, prop_oracle_prefix + "calculate-after-failure", "%s: Calculate raised %s" % (what, rc.error))
    stored = split_reply(rc.value)[0]
    if stored:
      raise vio(sim, prop_oracle_prefix + "calculate-after-failure",
                "%s: a following Calculate emitted %s" % (what, json.dumps(stored, default=repr)[:400]))
    return post

  def _bad(self, sim, ev):
    pre = sim.sigma
    out = sim.do(dict(ev, k="bundle"))
    sim.events[-1] = ev
    rb = sim.twin.apply(ev["a"])
    sim.primary.enter()
    if out.ok or rb.ok:
      # The engine accepted what we believed invalid: not a C04 matter (nothing failed).
      sim.count("probe.bad_bundle_accepted")
      if out.ok != rb.ok:
        raise vio(sim, "twin-agreement", "A.ok=%s B.ok=%s on %s" % (out.ok, rb.ok, ev["ops"][-1]))
      return out
    sim.count("fault.F5_natural_failure")
    self._post_failure_checks(sim, sim.primary, pre, "rejected bundle (%s)" % ev["ops"][-1])
    self._post_failure_checks(sim, sim.twin, pre, "rejected bundle (%s)" % ev["ops"][-1])
    sim.primary.enter()
    sim.count("oracle.natural_failure")
    sim.count("oracle.nontrivial")
    sim.shapes.add("%s/bad/%s" % (self.shape(sim), ev["ops"][-1]))
    return out

  def _faulted(self, sim, ev):
    pre = sim.sigma
    # A: fault-free, counting.
    ra, counts = faults.run_counting(sim.primary, ev["a"], phase=ev["fault"].get("phase", "ua"))
    sim.events.append(ev)
    sim.count("ev.fbundle")
    out = Outcome(ev)
    out.pre = pre
    out.ok = ra.ok
    if ra.ok:
      out.reply = ra.value
      out.stored, out.undo, out.direct, _c, out.ret = split_reply(ra.value)
      sim._to_store(out.stored)
    out.post = sim.refresh()
    want = ev["fault"]["kind"]
    kinds = [want] + [k for k in sim.fault_kinds if k != want]
    kind = next((k for k in kinds if counts.get(k, 0) > 0), None)
    if kind is None:
      sim.count("probe.no_fault_point")
      rb = sim.twin.apply(ev["a"])
      sim.primary.enter()
      if rb.ok != ra.ok or (ra.ok and reply_key(ra.value) != reply_key(rb.value)):
        raise vio(sim, "twin-agreement", "no-fault bundle: replies differ")
      return out
    n = counts[kind]
    pos = min(int(ev["fault"]["u"] * n), n - 1)
    if ev.get("enumerate"):
      self._enumerate(sim, ev, pre, ra, counts, skip=(kind, pos))
    self._one_position(sim, sim.twin, ev, pre, ra, kind, pos)
    sim.primary.enter()
    return out

  def _one_position(self, sim, procB, ev, pre, ra, kind, pos):
    phase = ev["fault"].get("phase", "ua")
    rb, fired = faults.run_armed(procB, ev["a"], kind, pos, phase=phase)
    tag = "" if phase == "ua" else " [post-action phase]"
    what = "bundle with injected %s#%d%s" % (kind, pos, tag)
    sim.count("fault.configured_" + kind)
    if fired:
      what = "bundle with injected %s#%d in %s%s" % (kind, pos, fired[2], tag)
      sim.count("fault.fired_" + kind)
      sim.count("fault.fired_%s_in_%s" % (kind, fired[2]))
    if not rb.ok:
      if fired is None and ra.ok:
        raise vio(sim, "twin-agreement", "B failed without a fired fault: %s" % rb.error)
      self._post_failure_checks(sim, procB, pre, what)
      sim.count("oracle.rollback")
      sim.count("oracle.nontrivial")
      sim.shapes.add("%s/%s/%s" % (self.shape(sim), kind, ",".join(ev.get("ops", ()))))
      if not ra.ok:
        return
      # retry without fault: must now behave exactly like the fault-free twin
      rb2 = procB.apply(ev["a"])
      if not rb2.ok:
        raise vio(sim, "retry-after-rollback", "%s: retry raised %s" % (what, rb2.error))
      if reply_key(rb2.value) != reply_key(ra.value):
        sa, sb = split_reply(ra.value), split_reply(rb2.value)
        raise vio(sim, "retry-after-rollback",
                  "%s: retry reply differs from the fault-free twin: A.stored=%s B.stored=%s A.ret=%s B.ret=%s" % (
                    what, json.dumps(sa[0], default=repr)[:300], json.dumps(sb[0], default=repr)[:300],
                    sa[4], sb[4]))
      d = eq.diff(sim.sigma, procB.snapshot())
      if d:
        raise vio(sim, "retry-after-rollback", "%s: state differs from twin after retry: %s" % (
          what, "; ".join(d[:4])))
      sim.count("oracle.retry")
    else:
      # fault absorbed (or not reached): replies must still agree
      if fired:
        sim.count("probe.fault_absorbed")
      if not ra.ok:
        raise vio(sim, "twin-agreement", "A failed naturally (%s) but faulted B succeeded" % ra.error)
      if reply_key(rb.value) != reply_key(ra.value):
        raise vio(sim, "twin-agreement", "%s absorbed, but reply differs from fault-free twin" % what)

  def _enumerate(self, sim, ev, pre, ra, counts, skip):
    """Thorough tier: every counted position of every kind, each in a forked clone of the
    pre-state (copy-on-write copy of both engines), so no position depends on undo being right."""
    total = 0
    for kind in sim.fault_kinds:
      for pos in range(min(counts.get(kind, 0), 60)):
        if (kind, pos) == skip:
          continue
        total += 1
        r, w = os.pipe()
        pid = os.fork()
        if pid == 0:
          os.close(r)
          msg = {"ok": True}
          try:
            sub = Sim.__new__(Sim)
            sub.__dict__.update(sim.__dict__)
            sub.counters = {}
            sub.shapes = set()
            self._one_position(sub, sim.twin, ev, pre, ra, kind, pos)
            msg["counters"] = sub.counters
          except Violation as v:
            msg = {"ok": False, "oracle": v.oracle, "detail": str(v.detail)}
          except BaseException as e:     # pylint: disable=broad-except
            msg = {"ok": False, "oracle": "harness", "detail": repr(e)}
          try:
            os.write(w, json.dumps(msg, default=repr).encode())
          finally:
            os._exit(0)
        os.close(w)
        data = b""
        while True:
          chunk = os.read(r, 65536)
          if not chunk:
            break
          data += chunk
        os.close(r)
        os.waitpid(pid, 0)
        msg = json.loads(data.decode()) if data else {"ok": False, "oracle": "harness", "detail": "child died"}
        if not msg["ok"]:
          if msg["oracle"] == "harness":
            raise RuntimeError("enumeration child failed: %s" % msg["detail"])
          # Re-raise in the parent, pinned to this position so the replay reproduces it.
          ev["fault"] = {"kind": kind, "u": (pos + 0.5) / counts[kind]}
          ev.pop("enumerate", None)
          raise vio(sim, msg["oracle"], "[enumerated %s#%d] %s" % (kind, pos, msg["detail"]))
        for k2, v2 in msg.get("counters", {}).items():
          sim.count(k2, v2)
    sim.count("probe.enumerated_bundles")
    sim.count("probe.enumerated_positions", total)

  def extra_coverage(self, counters):
    return {"fault_positions_enumerated": counters.get("probe.enumerated_positions", 0),
            "bundles_fully_enumerated": counters.get("probe.enumerated_bundles", 0)}


# -- C08 ------------------------------------------------------------------------------------------

class C08(C04):
  prop = "C08"
  name = "c08"
  level = "exploration"
  technique = ("deterministic simulation: schema-heavy seeded histories incl. metadata-only edit "
               "paths, natural and injected failures; schema rebuilt from metadata after every reply "
               "and every rollback")
  p_fault = 0.25
  p_bad = 0.15

  def base_weights(self):
    w = dict(gen.DEFAULT_WEIGHTS)
    for k in ("add_table", "add_data_column", "add_formula_column", "remove_column", "rename_column",
              "rename_table", "remove_table", "modify_type", "modify_formula", "toggle_formula",
              "add_summary", "update_summary", "detach_summary", "add_reverse", "duplicate_table",
              "display_formula", "add_rule", "trigger_column"):
      w[k] = w.get(k, 1) * 3
    w["update_records"] = 4
    return w

  def config(self, rng, tier):
    cfg = super(C08, self).config(rng, tier)
    cfg["enumerate"] = False
    return cfg

  def step(self, sim, ev, st):
    try:
      out = super(C08, self).step(sim, ev, st)
    except Violation as v:
      # Only schema oracles belong to C08; rollback-state etc. are C04's.
      if v.oracle in ("schema-vs-metadata", "stray-column-records", "engine-tables"):
        raise
      sim.count("probe.c04_oracle_fired_ignored_here")
      # ... but the state that C04 objects to is still a state in which C08 must hold -- for the
      # fault kinds C04 claims. A failure injected inside a schema doc action, or in the
      # post-action phase, is the territory of findings F-i / F-l (no rollback exists there).
      fault = ev.get("fault") or {}
      if fault.get("phase") == "post" or fault.get("kind") in faults.FINDING_KINDS:
        raise StopRun()
      for proc in (sim.primary, sim.twin):
        if proc is None:
          continue
        try:
          snap = proc.snapshot()
        except Exception:     # pylint: disable=broad-except
          continue            # not even readable: C04's business
        check_schema(sim, proc, snap, self.prop, "after %s (failed call)" % ev["k"])
      sim.primary.enter()
      raise StopRun()
    if ev["k"] != "open":
      check_schema(sim, sim.primary, sim.sigma, self.prop, "after " + ev["k"])
      check_schema(sim, sim.twin, sim.twin.snapshot(), self.prop, "after %s (twin)" % ev["k"])
      sim.primary.enter()
      sim.count("oracle.schema")
      if out is not None and out.stored:
        sim.count("oracle.nontrivial")
        sim.shapes.add("%s/%s" % (self.shape(sim), ",".join(ev.get("ops", ()))))
    return out


PROFILES = [C04(), C08()]
