"""
fx: reading formula texts with Python's own `ast` (independent of codebuilder.py). Used by the
generator (which columns are in use as lookup keys / sort columns / group-by) and by the stateless
oracles (what does this formula mean), so that oracles follow whatever text the engine currently
stores -- including texts rewritten by renames.
"""
import ast
import re

_DOLLAR = re.compile(r"\$([A-Za-z_][A-Za-z0-9_]*)")


def to_py(formula):
  """`$x` -> `rec.x`. Only used on formulas from our own grammar (no `$` inside strings)."""
  return _DOLLAR.sub(r"rec.\1", formula)


def parse(formula):
  try:
    return ast.parse(to_py(formula).strip() or "None")
  except SyntaxError:
    return None


def _const(node):
  try:
    return ast.literal_eval(node)
  except Exception:       # pylint: disable=broad-except
    return NotImplemented


def _sort_names(spec):
  """order_by/sort_by literal -> list of (col_id, descending)."""
  if spec is None or spec is NotImplemented:
    return []
  if isinstance(spec, str):
    spec = (spec,)
  out = []
  for s in spec:
    if isinstance(s, str):
      out.append((s[1:], True) if s.startswith("-") else (s, False))
  return out


class Lookup(object):
  """One `T.lookupRecords(...)`/`T.lookupOne(...)` call found in a formula."""
  __slots__ = ("table", "method", "keys", "order_by", "sort_by", "has_order", "node")


def find_lookups(tree):
  out = []
  for node in ast.walk(tree):
    if (isinstance(node, ast.Call) and isinstance(node.func, ast.Attribute)
        and node.func.attr in ("lookupRecords", "lookupOne")
        and isinstance(node.func.value, ast.Name)):
      lk = Lookup()
      lk.table = node.func.value.id
      lk.method = node.func.attr
      lk.keys = {}
      lk.order_by = "id"
      lk.sort_by = None
      lk.has_order = False
      lk.node = node
      for kw in node.keywords:
        if kw.arg == "order_by":
          lk.order_by = _const(kw.value)
          lk.has_order = True
        elif kw.arg == "sort_by":
          lk.sort_by = _const(kw.value)
        elif kw.arg is not None:
          lk.keys[kw.arg] = kw.value
      out.append(lk)
  return out


class PrevNext(object):
  __slots__ = ("func", "group_by", "order_by", "order", "node")


def find_prevnext(tree):
  out = []
  for node in ast.walk(tree):
    if (isinstance(node, ast.Call) and isinstance(node.func, ast.Name)
        and node.func.id in ("PREVIOUS", "NEXT", "RANK")):
      p = PrevNext()
      p.func = node.func.id
      p.group_by = None
      p.order_by = NotImplemented
      p.order = "asc"
      p.node = node
      for kw in node.keywords:
        if kw.arg == "group_by":
          p.group_by = _const(kw.value)
        elif kw.arg == "order_by":
          p.order_by = _const(kw.value)
        elif kw.arg == "order":
          p.order = _const(kw.value)
      out.append(p)
  return out


def used_in_sort_by(dv):
  """Set of (table_id, col_id) named in a legacy `sort_by=` argument of some formula. The engine
  rewrites `order_by` strings on a rename but not these, so D0 leaves such columns' names alone."""
  used = set()
  for c in dv.all_cols():
    if not c.formula or "sort_by" not in c.formula:
      continue
    tree = parse(c.formula)
    if tree is None:
      continue
    for lk in find_lookups(tree):
      for name, _d in _sort_names(lk.sort_by):
        used.add((lk.table, name))
  return used


def used_as_index(dv):
  """Set of (table_id, col_id) that some formula currently uses as a lookup key, an order_by /
  sort_by column, or a PREVIOUS/NEXT/RANK group/order column; plus summary group-by source columns
  and the group-by columns themselves. These are the columns domain D0 keeps total and in place."""
  used = set()
  for c in dv.all_cols():
    if c.summarySourceCol:
      src = dv.col_by_ref.get(c.summarySourceCol)
      if src is not None:
        used.add((src.table.tableId, src.colId))
      used.add((c.table.tableId, c.colId))
    if not c.formula:
      continue
    tree = parse(c.formula)
    if tree is None:
      continue
    for lk in find_lookups(tree):
      for k in lk.keys:
        used.add((lk.table, k))
      for name, _d in _sort_names(lk.order_by) + _sort_names(lk.sort_by):
        used.add((lk.table, name))
    for p in find_prevnext(tree):
      own = c.table.tableId
      gb = p.group_by
      if isinstance(gb, str):
        gb = (gb,)
      for g in (gb or ()):
        if isinstance(g, str):
          used.add((own, g))
      for name, _d in _sort_names(p.order_by):
        used.add((own, name))
  return used


def referenced_tables(formula):
  tree = parse(formula)
  if tree is None:
    return set()
  return {n.id for n in ast.walk(tree) if isinstance(n, ast.Name) and n.id[:1].isupper()}


def rec_attrs(formula):
  """Names x used as `$x`/`rec.x` in the formula."""
  tree = parse(formula)
  if tree is None:
    return set()
  return {n.attr for n in ast.walk(tree)
          if isinstance(n, ast.Attribute) and isinstance(n.value, ast.Name) and n.value.id == "rec"}
