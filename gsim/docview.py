"""
DocView: a convenient read-only view of a snapshot (Sigma) for generators and oracles. Built only
from what the engine reported through the pipe.
"""
from .eq import decode


class Col(object):
  __slots__ = ("ref", "table", "colId", "type", "isFormula", "formula", "label", "parentPos",
               "recalcWhen", "recalcDeps", "reverseCol", "summarySourceCol", "displayCol",
               "visibleCol", "rules", "widgetOptions", "untie")
  @property
  def pure(self):
    return self.type.split(":", 1)[0]
  @property
  def target(self):
    return self.type.split(":", 1)[1] if self.type.startswith(("Ref:", "RefList:")) else None
  @property
  def is_data(self):
    return not self.isFormula
  @property
  def is_trigger(self):
    return (not self.isFormula) and bool(self.formula)
  @property
  def is_empty(self):
    return self.isFormula and not self.formula
  def __repr__(self):
    return "Col(%s.%s #%s %s%s)" % (self.table.tableId, self.colId, self.ref, self.type,
                                    " =" + self.formula if self.formula else "")


class Tbl(object):
  __slots__ = ("ref", "tableId", "summarySource", "rawSection", "cardSection", "primaryView",
               "cols", "row_ids", "onDemand")
  def col(self, col_id):
    return self.cols.get(col_id)
  @property
  def is_summary(self):
    return bool(self.summarySource)
  def user_cols(self):
    return [c for c in self.cols.values()
            if c.colId != "manualSort" and not c.colId.startswith("gristHelper_")]
  def __repr__(self):
    return "Tbl(%s #%s)" % (self.tableId, self.ref)


def _records(td):
  _t, _tid, row_ids, cols = td
  names = list(cols.keys())
  for i, r in enumerate(row_ids):
    yield r, {n: cols[n][i] for n in names}


class DocView(object):
  def __init__(self, snap):
    self.snap = snap
    self.tables = {}        # tableId -> Tbl
    self.table_by_ref = {}
    self.col_by_ref = {}
    for r, rec in _records(snap["_grist_Tables"]):
      t = Tbl()
      t.ref = r
      t.tableId = rec["tableId"]
      t.summarySource = rec.get("summarySourceTable", 0)
      t.rawSection = rec.get("rawViewSectionRef", 0)
      t.cardSection = rec.get("recordCardViewSectionRef", 0)
      t.primaryView = rec.get("primaryViewId", 0)
      t.onDemand = rec.get("onDemand", False)
      t.cols = {}
      td = snap.get(t.tableId)
      t.row_ids = list(td[2]) if td is not None else []
      self.tables[t.tableId] = t
      self.table_by_ref[r] = t
    cols = []
    for r, rec in _records(snap["_grist_Tables_column"]):
      t = self.table_by_ref.get(rec["parentId"])
      if t is None:
        continue
      c = Col()
      c.ref = r
      c.table = t
      c.colId = rec["colId"]
      c.type = rec["type"] or "Any"
      c.isFormula = bool(rec["isFormula"])
      c.formula = rec["formula"] or ""
      c.label = rec.get("label")
      c.parentPos = rec.get("parentPos")
      c.recalcWhen = rec.get("recalcWhen", 0)
      c.recalcDeps = decode(rec.get("recalcDeps")) or []
      c.reverseCol = rec.get("reverseCol", 0)
      c.summarySourceCol = rec.get("summarySourceCol", 0)
      c.displayCol = rec.get("displayCol", 0)
      c.visibleCol = rec.get("visibleCol", 0)
      c.rules = decode(rec.get("rules")) or []
      c.widgetOptions = rec.get("widgetOptions") or ""
      c.untie = bool(rec.get("untieColIdFromLabel"))
      cols.append(c)
      self.col_by_ref[r] = c
    cols.sort(key=lambda c: (c.table.ref, c.parentPos if c.parentPos is not None else 0, c.ref))
    for c in cols:
      c.table.cols[c.colId] = c

  # -- convenience ------------------------------------------------------------------------------
  def user_tables(self, include_summary=False):
    return [t for t in self.tables.values()
            if not t.tableId.startswith("GristHidden_") and (include_summary or not t.is_summary)]

  def summary_tables(self):
    return [t for t in self.tables.values() if t.is_summary]

  def records(self, table_id):
    td = self.snap.get(table_id)
    if td is None:
      return []
    return list(_records(td))

  def cells(self, table_id, col_id):
    td = self.snap[table_id]
    return dict(zip(td[2], td[3][col_id]))

  def all_cols(self):
    return list(self.col_by_ref.values())
