"""
Fault injection (DESIGN 3.4). Harness-side wrappers around method boundaries of one Engine
instance; no source hook in /repo. A fault point is a place where the wrappers call
`Injector.point(kind)`; in counting mode the points are only counted, in armed mode the chosen
(kind, position) raises InjectedFault exactly once.

Kinds:
  F1  entry of the k-th Engine.apply_doc_action               (before anything of that doc action)
  F2rec / F2sch  exit of the k-th record / schema DocActions.<X>  (mutated, post-processing not run)
  F3s the j-th BaseColumn.set inside a doc action             (mid-mutation)
  F3r entry / F3x exit of the k-th Engine.rebuild_usercode    (mid schema action)
  F4  after the k-th UserActions._do_doc_action returned      (later step of a user action fails)
Points are only live in the *user-action phase* of apply_user_actions (phase "ua") unless the plan
asks for the post-action phase (phase "post": recalculation / auto-removal, i.e. after the `try`),
and never while a formula is being evaluated (an exception there is by design a cell value).
"""

KINDS = ("F1", "F2rec", "F2sch", "F3s", "F3r", "F3x", "F4")
CLAIMED_KINDS = ("F1", "F2rec", "F4")          # the property is expected to hold for these
FINDING_KINDS = ("F2sch", "F3s", "F3r", "F3x")  # inside a doc action: known findings F-i, F-u
RECORD_ACTIONS = ("BulkAddRecord", "BulkRemoveRecord", "BulkUpdateRecord", "ReplaceTableData")


class InjectedFault(Exception):
  pass


class Injector(object):
  def __init__(self):
    self.engine = None
    self.mode = "off"         # off | count | armed
    self.phase_wanted = "ua"
    self.plan = None          # (kind, position)
    self.counts = {}
    self.fired = None
    self.in_ua = False
    self.in_call = False
    self.in_doc_action = 0
    self.in_rollback = False

  def reset(self, engine, mode, plan=None, phase="ua"):
    self.engine = engine
    self.mode = mode
    self.plan = plan
    self.phase_wanted = phase
    self.counts = {}
    self.fired = None
    self.in_ua = False
    self.in_doc_action = 0
    self.in_rollback = False
    self.context = []
    self.last_action = None
    self.fired_in = None

  def live(self):
    if self.mode == "off" or not self.in_call or self.in_rollback:
      return False
    eng = self.engine
    if eng._current_node is not None:      # formula evaluation in progress
      return False
    phase = "ua" if self.in_ua else "post"
    return phase == self.phase_wanted

  def point(self, kind):
    if not self.live():
      return
    n = self.counts.get(kind, 0)
    self.counts[kind] = n + 1
    if self.mode == "armed" and self.fired is None and self.plan == (kind, n):
      self.fired = (kind, n)
      self.fired_in = self.context[-1] if self.context else (self.last_action or "?")
      raise InjectedFault("injected %s#%d" % (kind, n))


INJ = Injector()
_installed_class_patch = False


def _install_class_patch():
  global _installed_class_patch
  if _installed_class_patch:
    return
  _installed_class_patch = True
  import column
  orig_set = column.BaseColumn.set
  def set_wrapper(self, row_id, value):
    if INJ.mode != "off" and INJ.in_doc_action and not self.col_id.startswith("#"):
      INJ.point("F3s")
    return orig_set(self, row_id, value)
  column.BaseColumn.set = set_wrapper


def install(engine):
  """Wrap the method boundaries of this Engine instance (idempotent)."""
  if getattr(engine, "_gsim_faults", False):
    return
  engine._gsim_faults = True
  _install_class_patch()

  orig_apply_doc_action = engine.apply_doc_action
  def apply_doc_action(doc_action):
    if INJ.engine is engine:
      INJ.last_action = type(doc_action).__name__
      INJ.point("F1")
    return orig_apply_doc_action(doc_action)
  engine.apply_doc_action = apply_doc_action

  da = engine.doc_actions
  for name in ("BulkAddRecord", "BulkRemoveRecord", "BulkUpdateRecord", "ReplaceTableData",
               "AddColumn", "RemoveColumn", "RenameColumn", "ModifyColumn",
               "AddTable", "RemoveTable", "RenameTable"):
    orig = getattr(da, name)
    def make(orig, name):
      def wrapper(*args):
        if INJ.engine is engine:
          INJ.in_doc_action += 1
          INJ.context.append(name)
          try:
            ret = orig(*args)
          finally:
            INJ.in_doc_action -= 1
            INJ.context.pop()
          INJ.last_action = name
          INJ.point("F2rec" if name in RECORD_ACTIONS else "F2sch")
          return ret
        return orig(*args)
      return wrapper
    setattr(da, name, make(orig, name))

  orig_rebuild = engine.rebuild_usercode
  def rebuild_usercode():
    if INJ.engine is engine and INJ.in_doc_action:
      INJ.point("F3r")
      ret = orig_rebuild()
      INJ.point("F3x")
      return ret
    return orig_rebuild()
  engine.rebuild_usercode = rebuild_usercode

  ua = engine.user_actions
  orig_do = ua._do_doc_action
  def _do_doc_action(action):
    ret = orig_do(action)
    if INJ.engine is engine:
      INJ.point("F4")
    return ret
  ua._do_doc_action = _do_doc_action

  orig_one = engine._apply_one_user_action
  def _apply_one_user_action(user_action):
    if INJ.engine is engine:
      INJ.in_ua = True
      try:
        return orig_one(user_action)
      finally:
        INJ.in_ua = False
    return orig_one(user_action)
  engine._apply_one_user_action = _apply_one_user_action

  orig_undo_to = engine._undo_to_checkpoint
  def _undo_to_checkpoint(checkpoint):
    if INJ.engine is engine:
      prev = INJ.in_rollback
      INJ.in_rollback = True
      try:
        return orig_undo_to(checkpoint)
      finally:
        INJ.in_rollback = prev
    return orig_undo_to(checkpoint)
  engine._undo_to_checkpoint = _undo_to_checkpoint


def run_counting(proc, user_actions, phase="ua"):
  """Apply the bundle with the wrappers in counting mode. Returns (CallResult, counts)."""
  install(proc.engine)
  INJ.reset(proc.engine, "count", phase=phase)
  INJ.in_call = True
  try:
    r = proc.apply(user_actions)
  finally:
    INJ.in_call = False
    counts = dict(INJ.counts)
    INJ.mode = "off"
  return r, counts


def run_armed(proc, user_actions, kind, pos, phase="ua"):
  """Apply the bundle with one armed fault. Returns (CallResult, fired?)."""
  install(proc.engine)
  INJ.reset(proc.engine, "armed", plan=(kind, pos), phase=phase)
  INJ.in_call = True
  try:
    r = proc.apply(user_actions)
  finally:
    INJ.in_call = False
    fired = (INJ.fired + (INJ.fired_in,)) if INJ.fired else None
    INJ.mode = "off"
  return r, fired
