"""
Run driver: one run = pure function of (profile, run seed, tree). Batches fan out over forked
workers; results are reduced in run-index order, so the verdict does not depend on worker count.
"""
import faulthandler
import gc
import hashlib
import json
import os
import random
import signal
import sys
import time
import traceback
from concurrent.futures import ProcessPoolExecutor
from concurrent.futures.process import BrokenProcessPool
import multiprocessing

from . import boot
from .sim import Violation, StopRun
from .proc import SandboxDied


def run_seed(verif_seed, profile_name, run_index):
  h = hashlib.sha256(("%s|%s|%s" % (verif_seed, profile_name, run_index)).encode()).digest()
  return int.from_bytes(h[:8], "big")


class RunTimeout(BaseException):
  """Raised from a signal handler inside whatever is running; a BaseException so that the engine's
  own `except Exception` around formula evaluation cannot turn it into a cell value."""
  def __init__(self, kind):
    BaseException.__init__(self, kind)
    self.kind = kind


def _alarm(_sig, _frm):
  raise RunTimeout("wall")


def _cpu_alarm(_sig, _frm):
  raise RunTimeout("cpu")


class RunResult(object):
  def __init__(self):
    self.run_index = None
    self.seed = None
    self.cfg = None
    self.events = []
    self.violation = None      # dict(prop, oracle, detail, event_index)
    self.harness_error = None  # traceback text
    self.counters = {}
    self.shapes = set()
    self.nontrivial = 0
    self.wall = 0.0
    self.digest = None

  def to_dict(self):
    d = dict(self.__dict__)
    d["shapes"] = sorted(self.shapes)
    return d


_ADDR = __import__("re").compile(r" at 0x[0-9a-fA-F]+")


def _digest_events(events, extra=""):
  h = hashlib.sha256()
  h.update(json.dumps(events, sort_keys=True, default=repr).encode())
  h.update(extra.encode())
  return h.hexdigest()[:16]


def execute(profile, seed=None, cfg=None, events=None, tier="quick", time_limit=120, log=None,
            run_index=None):
  """Generate-and-run (events is None) or replay (events given). Returns RunResult."""
  res = RunResult()
  res.seed = seed
  profile.current_run_index = run_index
  t0 = time.time()
  # Two limits: CPU time of this process (independent of how busy the machine is; what a run that
  # does not terminate exhausts) and a much larger wall-clock backstop.
  old = signal.signal(signal.SIGALRM, _alarm)
  old_prof = signal.signal(signal.SIGPROF, _cpu_alarm)
  signal.alarm(int(time_limit) * 10)
  # (repeating: code that swallows the exception once is interrupted again a second later)
  signal.setitimer(signal.ITIMER_PROF, float(time_limit), 1.0)
  sim = None
  try:
    rng = random.Random(seed) if seed is not None else None
    if cfg is None:
      cfg = profile.config(rng, tier)
    res.cfg = cfg
    sim = profile.new_sim(cfg)
    sim.shapes = res.shapes
    st = profile.init_state(sim, cfg)
    try:
      if events is None:
        g = profile.new_generator(rng, cfg)
        for ev in profile.first_events(sim, g, cfg):
          profile.step(sim, ev, st)
        i = 0
        while i < cfg["max_events"]:
          ev = profile.next_event(sim, g, cfg, st, i)
          if ev is None:
            break
          profile.step(sim, ev, st)
          i += 1
      else:
        for ev in events:
          profile.step(sim, ev, st)
      profile.finish(sim, st)
    except StopRun:
      pass
    except Violation as v:
      res.violation = {"prop": v.prop, "oracle": v.oracle, "detail": str(v.detail)[:2000],
                       "event_index": v.event_index if v.event_index is not None
                       else len(sim.events) - 1}
    except SandboxDied as e:
      res.violation = {"prop": profile.prop if profile.sandbox_death_is_violation else "HARNESS",
                       "oracle": "sandbox-died", "detail": str(e)[:2000],
                       "event_index": len(sim.events) - 1}
      if not profile.sandbox_death_is_violation:
        res.harness_error = "SandboxDied: %s" % e
        res.violation = None
  except RunTimeout as e:
    if e.kind == "cpu" and profile.cpu_timeout_is_violation and sim is not None:
      res.violation = {"prop": profile.prop, "oracle": "non-termination",
                       "detail": "one run used more than %s CPU seconds (runs of this profile take "
                                 "milliseconds)" % time_limit,
                       "event_index": len(sim.events) - 1}
    else:
      res.harness_error = "run exceeded %ss (%s)" % (time_limit, e.kind)
  except Exception:      # pylint: disable=broad-except
    res.harness_error = traceback.format_exc()
  finally:
    signal.setitimer(signal.ITIMER_PROF, 0)
    signal.alarm(0)
    signal.signal(signal.SIGALRM, old)
    signal.signal(signal.SIGPROF, old_prof)
  if sim is not None:
    res.events = sim.events
    res.counters = sim.counters
    res.nontrivial = sim.counters.get("oracle.nontrivial", 0)
    try:
      final = json.dumps(sim.sigma, sort_keys=True, default=repr) if sim.sigma is not None else ""
    except (RecursionError, ValueError):
      final = "unserialisable"
    # (a memory address inside the repr of an object that cannot travel is not part of the run)
    final = _ADDR.sub(" at 0x?", final)
    res.digest = _digest_events(sim.events, json.dumps(res.violation, sort_keys=True, default=repr)
                                + final + json.dumps(sim.counters, sort_keys=True))
  res.wall = time.time() - t0
  return res


# -- minimisation -------------------------------------------------------------------------------

def same_failure(a, b):
  return (a is not None and b is not None and a["prop"] == b["prop"] and a["oracle"] == b["oracle"])


def minimise(profile, cfg, events, violation, budget_s=60, max_replays=150):
  """Delta debugging over the concrete event list, then over user actions inside bundles.
  A candidate is accepted only if the same (property, oracle) fires."""
  t0 = time.time()
  replays = [0]

  def fails(cand):
    if replays[0] >= max_replays or time.time() - t0 > budget_s:
      return False
    replays[0] += 1
    r = execute(profile, cfg=cfg, events=cand, time_limit=min(30, profile.run_time_limit))
    return r.harness_error is None and same_failure(r.violation, violation)

  # keep only events up to the failing one
  idx = violation.get("event_index")
  cur = list(events[:idx + 1]) if idx is not None else list(events)
  if not fails(cur):
    cur = list(events)
  head = cur[:1]       # the "open" event stays
  body = cur[1:]
  n = 2
  while len(body) >= 2 and replays[0] < max_replays and time.time() - t0 < budget_s:
    chunk = max(1, len(body) // n)
    reduced = False
    for i in range(0, len(body), chunk):
      cand = body[:i] + body[i + chunk:]
      if cand and fails(head + cand):
        body = cand
        n = max(n - 1, 2)
        reduced = True
        break
    if not reduced:
      if chunk == 1:
        break
      n = min(n * 2, len(body))
  # drop single user actions inside bundles
  for bi in range(len(body)):
    ev = body[bi]
    if ev.get("k") not in ("bundle", "fbundle") or len(ev.get("a", [])) < 2:
      continue
    j = 0
    while j < len(body[bi]["a"]) and len(body[bi]["a"]) > 1:
      cand_ev = dict(body[bi])
      cand_ev["a"] = body[bi]["a"][:j] + body[bi]["a"][j + 1:]
      cand = body[:bi] + [cand_ev] + body[bi + 1:]
      if fails(head + cand):
        body = cand
      else:
        j += 1
  return head + body, replays[0]


# -- batch --------------------------------------------------------------------------------------

def _worker(args):
  (profile_name, verif_seed, indices, tier, time_limit) = args
  from .profiles import get_profile
  faulthandler.enable()
  boot.boot()
  try:
    # a run that grows without bound gets a MemoryError inside its own process, long before the
    # machine starts killing processes at random
    import resource
    resource.setrlimit(resource.RLIMIT_AS, (8 << 30, 8 << 30))
  except Exception:     # pylint: disable=broad-except
    pass
  profile = get_profile(profile_name)
  out = []
  for i in indices:
    seed = run_seed(verif_seed, profile.name, i)
    faulthandler.dump_traceback_later(time_limit + 30, exit=False)
    r = execute(profile, seed=seed, tier=tier, time_limit=time_limit, run_index=i)
    faulthandler.cancel_dump_traceback_later()
    r.run_index = i
    d = r.to_dict()
    if r.violation is None and r.harness_error is None:
      d["events_sample"] = d["events"] if i < 2 else None
      d["n_events"] = len(d["events"])
      d["events"] = None
    else:
      d["n_events"] = len(d["events"])
    out.append(d)
    gc.collect()
  return out


def _blank_result(run_index, harness_error=None):
  return {"run_index": run_index, "harness_error": harness_error, "violation": None, "counters": {},
          "shapes": [], "nontrivial": 0, "wall": 0, "n_events": 0, "events": None, "seed": None,
          "cfg": None}


def _isolated_run(profile, verif_seed, i, tier, time_limit):
  """Run i in a fresh interpreter that logs each event before executing it. If that process dies,
  the logged events are the replay of the crash."""
  import subprocess, tempfile
  fd, path = tempfile.mkstemp(prefix="gsim-isolated-", suffix=".jsonl")
  os.close(fd)
  try:
    cmd = [sys.executable, os.path.join(boot.VERIF_DIR, "bin", "check"), "--isolated-run",
           "%s:%s:%s:%s:%s" % (profile.name, verif_seed, i, tier, time_limit), "--events-out", path]
    try:
      p = subprocess.run(cmd, capture_output=True, text=True, timeout=time_limit * 12 + 120)
      rc, out = p.returncode, p.stdout
    except subprocess.TimeoutExpired:
      rc, out = -9, ""
    for line in out.splitlines():
      if line.startswith("ISOLATED-RESULT "):
        return json.loads(line[len("ISOLATED-RESULT "):])
    events, cfg = [], None
    with open(path) as f:
      for line in f:
        rec = json.loads(line)
        if "cfg" in rec:
          cfg = rec["cfg"]
        else:
          events.append(rec)
    d = _blank_result(i)
    d.update({"seed": run_seed(verif_seed, profile.name, i), "cfg": cfg, "events": events,
              "n_events": len(events)})
    what = "the engine process died (exit status %s) while executing the last event" % rc
    if profile.sandbox_death_is_violation or profile.cpu_timeout_is_violation:
      d["violation"] = {"prop": profile.prop, "oracle": "engine-process-died", "detail": what,
                        "event_index": len(events) - 1}
    else:
      d["harness_error"] = what
    return d
  finally:
    try:
      os.unlink(path)
    except OSError:
      pass


def isolated_main(spec, events_out):
  """Child side of _isolated_run."""
  name, verif_seed, i, tier, time_limit = spec.split(":")
  from .profiles import get_profile
  profile = get_profile(name)
  i = int(i)
  out = open(events_out, "w")
  orig_step = profile.step
  state = {"cfg_written": False}
  def logging_step(sim, ev, st):
    if not state["cfg_written"]:
      out.write(json.dumps({"cfg": getattr(sim, "cfg", None) or st.get("cfg") if isinstance(st, dict) else None},
                           default=repr) + "\n")
      state["cfg_written"] = True
    out.write(json.dumps(ev, default=repr) + "\n")
    out.flush()
    return orig_step(sim, ev, st)
  profile.step = logging_step
  r = execute(profile, seed=run_seed(int(verif_seed), profile.name, i), tier=tier,
              time_limit=int(float(time_limit)), run_index=i)
  r.run_index = i
  d = r.to_dict()
  d["n_events"] = len(d["events"] or [])
  if r.violation is None and r.harness_error is None:
    d["events"] = None
  print("ISOLATED-RESULT " + json.dumps(d, default=repr))
  return 0


def run_batch(profile, verif_seed, n_runs, tier, workers=None, wall_budget=None, time_limit=120,
              start_index=0, progress=None):
  """Run n_runs runs (indices start_index..) over forked workers. Stops submitting new chunks when
  wall_budget is used up (reported, not hidden). Returns (results sorted by index, planned)."""
  workers = workers or int(os.environ.get("GSIM_WORKERS", os.cpu_count() or 4))
  t0 = time.time()
  chunk = max(1, min(8, n_runs // (workers * 4) or 1))
  if tier == "thorough" and getattr(profile, "thorough_chunk", None):
    chunk = profile.thorough_chunk      # slow runs: small chunks keep the tail after the budget short
  chunks = [list(range(i, min(i + chunk, start_index + n_runs)))
            for i in range(start_index, start_index + n_runs, chunk)]
  results = []
  ctx = multiprocessing.get_context("fork")
  it = iter(chunks)
  state = {"done": False}
  lost = []          # run indices whose worker process died under them
  def run_pool():
    """One process pool until the chunks run out or a worker dies. Returns True when finished."""
    inflight = []
    with ProcessPoolExecutor(max_workers=workers, mp_context=ctx) as ex:
      def submit_more():
        while len(inflight) < workers * 2 and not state["done"]:
          if wall_budget is not None and time.time() - t0 > wall_budget:
            state["done"] = True
            break
          try:
            idxs = next(it)
          except StopIteration:
            state["done"] = True
            break
          inflight.append((idxs, ex.submit(_worker, (profile.name, verif_seed, idxs, tier, time_limit))))
      try:
        submit_more()
        while inflight:
          idxs, fut = inflight.pop(0)
          try:
            results.extend(fut.result(timeout=time_limit * 12 + 60))
          except BrokenProcessPool:
            lost.extend(idxs)
            for idxs2, _f in inflight:
              lost.extend(idxs2)
            return False
          except Exception as e:     # pylint: disable=broad-except
            results.append(_blank_result(-1, "worker failed: %r" % (e,)))
          submit_more()
      except BrokenProcessPool:
        for idxs2, _f in inflight:
          lost.extend(idxs2)
        return False
    return True
  pools = 0
  while not run_pool() and pools < 2:
    pools += 1
  # A dead worker (segmentation fault, out of memory) takes its pool along. Runs that were in
  # flight are repeated one by one, each in a process of its own, which also finds the culprit.
  lost = sorted(set(lost))[:48]      # (the culprit is among the first in flight; bound the cost)
  if lost:
    from concurrent.futures import ThreadPoolExecutor
    with ThreadPoolExecutor(max_workers=max(2, workers // 2)) as tp:
      results.extend(tp.map(lambda i: _isolated_run(profile, verif_seed, i, tier, time_limit), lost))
  results.sort(key=lambda d: d["run_index"])
  return results, len(chunks) * chunk
