"""
Profile base class. A profile = domain + op mix + enabled events/faults + monitors for one
property. The same `step()` (execute one concrete event, then check) is used while generating and
while replaying, so a replay file needs nothing but its event list and cfg.
"""
import json

from . import gen, fx
from .docview import DocView
from .sim import Sim, Violation


class Profile(object):
  prop = None            # property id, e.g. "C01"
  name = None            # profile name (defaults to prop lowercased)
  level = "exploration"
  technique = "deterministic simulation: seeded histories"
  components = None

  quick_runs = 600
  thorough_runs = 12000
  quick_budget = 75        # soft wall budget (s): no new runs are started after this
  thorough_budget = 780
  run_time_limit = 120     # hard per-run limit (s); exceeding it is a harness error
  minimise_budget = 45
  max_events = 30
  sandbox_death_is_violation = False
  cpu_timeout_is_violation = False    # C18: termination is the property
  fresh_replay_attempts = 1
  observed_difference_is_witness = False   # C30: two processes that disagreed are the violation

  # -- evidence texts ---------------------------------------------------------------------------
  def rule_text(self):
    return ("one case = one seeded simulated run (swarm-configured history of events through the "
            "real Sandbox framing); non-trivial = the property's oracle was evaluated at least once "
            "on a state changed by the event; distinct = distinct document-shape digests (tables, "
            "column types, formula kinds, summary/two-way/trigger features, row-count class) seen "
            "at such evaluations")

  def domain_text(self):
    return "D0 (DESIGN 4.2): fresh names, typed values, stratified formulas, total key/sort columns"

  def components_text(self):
    return {
      "real": ["sandbox/grist engine, useractions, docactions, docmodel, table, column, lookup, "
               "relation, depend, summary, gencode, codebuilder, objtypes, usertypes, action_obj, "
               "action_summary, acl, main.run API registration, sandbox.Sandbox framing (marshal)"],
      "stub": ["pipe (in-memory SimPipeIn/SimPipeOut)", "Node ActiveDoc (SimNode log, undo/redo)",
               "DocStorage (SimStore doc-action interpreter)", "clock (counter)",
               "friendly_traceback (source cache only)"],
    }

  def level_text(self):
    return ("seeded search over simulated runs (%d quick / %d thorough, swarm-configured, <=%d events "
            "each) of the real engine behind the real Sandbox framing; every violation is minimised "
            "to a replay file that reproduces it in a fresh process. Evidence over the seeds, domain "
            "and bounds stated in the evidence file, not a proof." % (
              self.quick_runs, self.thorough_runs, self.max_events))

  def level_note(self):
    return ("trusted base: the harness (gsim), CPython, the Node/DocStorage stubs' reading of how "
            "stored actions are applied; engine code is real and imported from the working tree. "
            "Domain: " + self.domain_text())

  def assumptions(self):
    return ["Node side is a stub: DocStorage/SQLite typing and ActionHistory are modelled, not run",
            "error cells compare by error class only (friendly_traceback is stubbed)",
            "a clean batch is evidence over the seeds/domain/bounds listed, not a proof"]

  def extra_coverage(self, counters):
    return {}

  # -- configuration (swarm) --------------------------------------------------------------------
  def config(self, rng, tier):
    cfg = {
      "max_events": rng.randint(max(6, self.max_events // 3), self.max_events),
      "max_tables": rng.randint(1, 4),
      "max_rows": rng.choice([4, 8, 12]),
      "weights": gen.swarm_weights(rng, self.base_weights()),
      "alt_text_p": rng.choice([0.0, 0.05, 0.15]),
      "none_p": rng.choice([0.0, 0.1, 0.2]),
    }
    return cfg

  def base_weights(self):
    return dict(gen.DEFAULT_WEIGHTS)

  # -- lifecycle --------------------------------------------------------------------------------
  def new_sim(self, cfg):
    return Sim(self.prop)

  def init_state(self, sim, cfg):
    """Checker-side state (rebuilt identically on replay)."""
    return {}

  def new_generator(self, rng, cfg):
    gen.NO_SORT_BY[0] = bool(cfg.get("no_sort_by"))
    return gen.G(rng, cfg)

  def first_events(self, sim, g, cfg):
    return [{"k": "open"}]

  def next_event(self, sim, g, cfg, st, i):
    """Generate the next concrete event from the current state, or None to stop."""
    dv = DocView(sim.sigma)
    names, acts = gen.gen_bundle(g, dv, cfg["weights"])
    if not acts:
      return {"k": "bundle", "a": [["Calculate"]], "ops": ["noop"]}
    return {"k": "bundle", "a": acts, "ops": names}

  def step(self, sim, ev, st):
    """Execute one event and run this profile's checks. Raises Violation."""
    out = sim.do(ev)
    self.check(sim, out, st)
    return out

  def check(self, sim, out, st):
    pass

  def finish(self, sim, st):
    pass

  # -- evidence helpers -------------------------------------------------------------------------
  def shape(self, sim):
    """Digest of the document's shape, for the distinct-cases measure."""
    try:
      dv = DocView(sim.sigma)
    except Exception:   # pylint: disable=broad-except
      return "?"
    parts = []
    for t in sorted(dv.tables.values(), key=lambda t: t.ref):
      kinds = []
      for c in t.cols.values():
        k = c.pure
        if c.isFormula and c.formula:
          k += "=" + _formula_kind(c.formula)
        elif c.formula:
          k += "~trig%d" % (c.recalcWhen or 0)
        if c.reverseCol:
          k += "<>"
        if c.summarySourceCol:
          k += "#gb"
        kinds.append(k)
      parts.append(("S" if t.is_summary else "T") + ":" + ",".join(sorted(kinds))
                   + ":r%d" % min(len(t.row_ids), 3))
    return "|".join(parts)


def _formula_kind(f):
  for key in ("lookupRecords", "lookupOne", "PREVIOUS", "NEXT", "RANK", ".find.", "$group",
              ".all", "sum(", "len(", "str("):
    if key in f:
      return key.strip("$.(")
  return "expr"


def vio(sim, oracle, detail, prop=None):
  return Violation(prop or sim.prop, oracle, detail, event_index=len(sim.events) - 1)


def jdump(x):
  return json.dumps(x, sort_keys=True, default=repr)
