"""
Sim: the simulated world -- Node stub (action log, undo/redo discipline), durable replica
(SimStore), one primary sandbox process (EngineProc) plus optional twins, the simulated clock, and
the executor for concrete events. Profiles generate events online; what is recorded (and replayed,
and minimised) is the concrete event list, so replay never depends on a generator.

Event vocabulary (JSON-able dicts):
  {"k":"open"}                               new document: load_empty + InitNewDoc
  {"k":"bundle","a":[user actions]}          one apply_user_actions call
  {"k":"undo"} / {"k":"redo"}                Node's linear undo/redo over its action log
  {"k":"restart","mode":m}                   crash + restart; m = reported | store | noformulas
  {"k":"read","call":name,"args":[...]}      one read-only RPC
  {"k":"tick","dt":seconds,"update":bool}    advance the simulated clock (optionally UpdateCurrentTime)
Profiles may add their own kinds and execute them themselves.
"""
from . import boot
from .proc import EngineProc, DefaultPeer, db_blob, SandboxDied
from .store import SimStore, StoreError
from . import eq


class Violation(Exception):
  def __init__(self, prop, oracle, detail, event_index=None):
    super(Violation, self).__init__("%s/%s: %s" % (prop, oracle, detail))
    self.prop = prop
    self.oracle = oracle
    self.detail = detail
    self.event_index = event_index


class StopRun(Exception):
  """Ends a run quietly (e.g. another property's oracle fired inside a guard)."""


class Outcome(object):
  """Result of executing one event."""
  def __init__(self, ev):
    self.ev = ev
    self.ok = None          # did the RPC return DATA
    self.error = None
    self.reply = None       # decoded reply of apply_user_actions (dict) or value of a read
    self.stored = []
    self.undo = []
    self.direct = []
    self.ret = []
    self.pre = None         # Sigma before
    self.post = None        # Sigma after
    self.extra = {}


def split_reply(value):
  stored = [a for (_e, a) in value["stored"]]
  undo = [a for (_e, a) in value["undo"]]
  direct = [d for (_e, d) in value["direct"]]
  calc = [a for (_e, a) in value["calc"]]
  return stored, undo, direct, calc, value["retValues"]


class LogEntry(object):
  __slots__ = ("actions", "stored", "undo", "pre", "post", "index")


class Sim(object):
  def __init__(self, prop, peer=None):
    boot.boot()
    self.prop = prop              # property id used for violations raised by core monitors
    self.peer = peer or DefaultPeer()
    self.primary = None
    self.store = SimStore()
    self.log = []                 # LogEntry list (Node's ActionHistory)
    self.ptr = 0                  # number of log entries currently applied
    self.base = 0                 # entries below this index are not undoable (InitNewDoc)
    self.events = []              # concrete events executed so far
    self.sigma = None             # snapshot after the last event
    self.sigma0 = None            # snapshot right after "open"
    self.counters = {}
    self.track_store = True       # apply every reply's stored actions to the replica
    self.restarts = 0
    self.listeners = []           # monitors: fn(sim, outcome)
    self.store_errors = []

  def count(self, key, n=1):
    self.counters[key] = self.counters.get(key, 0) + n

  # -- helpers ----------------------------------------------------------------------------------
  def refresh(self):
    self.sigma = self.primary.snapshot()
    return self.sigma

  def _to_store(self, stored):
    if not self.track_store:
      return
    try:
      self.store.apply_all(stored)
    except StoreError as e:
      self.store_errors.append(str(e))

  # -- event execution --------------------------------------------------------------------------
  def do(self, ev):
    self.events.append(ev)
    fn = getattr(self, "_ev_" + ev["k"])
    out = Outcome(ev)
    out.pre = self.sigma
    fn(ev, out)
    self.count("ev." + ev["k"])
    for fn in self.listeners:
      fn(self, out)
    return out

  def _ev_open(self, ev, out):
    boot.clock.now = 1700000000.0
    self.primary = EngineProc(self.peer, name="P")
    r = self.primary.call("load_empty")
    assert r.ok, r.error
    r = self.primary.apply([["InitNewDoc"]])
    assert r.ok, r.error
    stored, undo, direct, _calc, ret = split_reply(r.value)
    self._to_store(stored)
    out.ok = True
    out.stored, out.undo, out.direct, out.ret = stored, undo, direct, ret
    out.reply = r.value
    out.post = self.refresh()
    self.sigma0 = out.post
    self.log = []
    self.ptr = 0

  def apply_raw(self, user_actions, proc=None):
    """apply_user_actions on a process; returns (CallResult)."""
    return (proc or self.primary).apply(user_actions)

  def _ev_bundle(self, ev, out):
    r = self.primary.apply(ev["a"])
    out.ok = r.ok
    out.extra["nested"] = r.nested
    if r.ok:
      out.reply = r.value
      out.stored, out.undo, out.direct, _calc, out.ret = split_reply(r.value)
      out.extra["calc"] = _calc
      self._to_store(out.stored)
      out.post = self.refresh()
      if not ev.get("nolog"):
        e = LogEntry()
        e.actions, e.stored, e.undo, e.pre, e.post = ev["a"], out.stored, out.undo, out.pre, out.post
        e.index = len(self.events) - 1
        del self.log[self.ptr:]
        self.log.append(e)
        self.ptr += 1
    else:
      out.error = r.error
      out.post = self.refresh()

  def _ev_undo(self, ev, out):
    if self.ptr <= self.base:
      out.ok = None
      out.post = self.sigma
      return
    e = self.log[self.ptr - 1]
    out.extra["entry"] = e
    r = self.primary.apply([["ApplyUndoActions", e.undo]])
    out.ok = r.ok
    if r.ok:
      out.reply = r.value
      out.stored, out.undo, out.direct, _c, out.ret = split_reply(r.value)
      self._to_store(out.stored)
      self.ptr -= 1
    else:
      out.error = r.error
    out.post = self.refresh()

  def _ev_redo(self, ev, out):
    if self.ptr >= len(self.log):
      out.ok = None
      out.post = self.sigma
      return
    e = self.log[self.ptr]
    out.extra["entry"] = e
    r = self.primary.apply([["ApplyDocActions", e.stored]])
    out.ok = r.ok
    if r.ok:
      out.reply = r.value
      out.stored, out.undo, out.direct, _c, out.ret = split_reply(r.value)
      self._to_store(out.stored)
      self.ptr += 1
    else:
      out.error = r.error
    out.post = self.refresh()

  def _ev_read(self, ev, out):
    r = self.primary.call(ev["call"], *ev["args"])
    out.ok = r.ok
    out.reply = r.value
    out.error = r.error
    out.post = self.refresh()

  def _ev_tick(self, ev, out):
    boot.clock.advance(ev.get("dt", 1))
    out.ok = True
    out.post = self.sigma
    if ev.get("update"):
      r = self.primary.apply([["UpdateCurrentTime"]])
      out.ok = r.ok
      if r.ok:
        out.stored, out.undo, out.direct, _c, out.ret = split_reply(r.value)
        self._to_store(out.stored)
      out.post = self.refresh()

  # -- crash / restart --------------------------------------------------------------------------
  def load_proc(self, source, name="R"):
    """Build a new sandbox process from `source` ({table_id: TableData repr}) through the real
    open flow: load_meta_tables, load_table for every other table, Calculate.
    Returns (proc, calculate_result)."""
    proc = EngineProc(self.peer, name=name)
    r = proc.call("load_meta_tables", db_blob(source["_grist_Tables"]),
                  db_blob(source["_grist_Tables_column"]))
    if not r.ok:
      return proc, r
    for tid in r.value:
      if tid in source:
        r2 = proc.call("load_table", tid, db_blob(source[tid]))
        if not r2.ok:
          return proc, r2
    rc = proc.apply([["Calculate"]])
    return proc, rc

  def _ev_restart(self, ev, out):
    mode = ev.get("mode", "reported")
    if mode == "store":
      source = self.store.snapshot()
    else:
      source = self.sigma
    proc, rc = self.load_proc(source, name="P%d" % (self.restarts + 1))
    out.ok = rc.ok
    out.extra["old_sigma"] = self.sigma
    if not rc.ok:
      out.error = rc.error
      # keep the old process: the restart failed (profiles decide whether that is a violation)
      out.post = self.sigma
      return
    self.restarts += 1
    self.primary = proc
    out.reply = rc.value
    out.stored, out.undo, out.direct, _c, out.ret = split_reply(rc.value)
    self._to_store(out.stored)
    out.post = self.refresh()

  def from_scratch(self, perm_seed=None):
    """A side engine that loads the primary's metadata and data columns only (no stored formula
    results) and recalculates everything. Returns (snapshot, error)."""
    source = self.primary.snapshot(formulas=False)
    proc, rc = self.load_proc(source, name="F")
    if not rc.ok:
      return None, rc.error
    snap = proc.snapshot()
    self.primary.enter()
    return snap, None
