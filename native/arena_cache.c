/*
 * Arena allocator with a free-list cache, installed into CPython via PyObject_SetArenaAllocator
 * (through ctypes) by gsim/boot.py.
 *
 * Why: CPython 3.12 allocates every 16 KiB chunk of its frame data stack (and obmalloc arenas)
 * with mmap and returns it with munmap as soon as it is empty. The engine's call depth oscillates
 * across chunk boundaries, which costs ~1000 mmap/munmap pairs per simulated run. In this VM,
 * page faults on fresh mappings contend badly across processes (measured: 30x slowdown with 16
 * workers). Keeping freed blocks on per-size free lists removes that churn. It changes nothing
 * about what the engine computes.
 */
#include <stddef.h>
#include <string.h>
#include <sys/mman.h>

#define NCLASS 8
#define MAXCACHED 64

static size_t class_size[NCLASS];
static void *cache[NCLASS][MAXCACHED];
static int cached[NCLASS];
static int nclass = 0;

void *gsim_arena_alloc(void *ctx, size_t size) {
  (void)ctx;
  for (int i = 0; i < nclass; i++) {
    if (class_size[i] == size && cached[i] > 0) {
      void *p = cache[i][--cached[i]];
      memset(p, 0, size);
      return p;
    }
  }
  void *p = mmap(NULL, size, PROT_READ | PROT_WRITE, MAP_PRIVATE | MAP_ANONYMOUS, -1, 0);
  return p == MAP_FAILED ? NULL : p;
}

void gsim_arena_free(void *ctx, void *ptr, size_t size) {
  (void)ctx;
  int i;
  for (i = 0; i < nclass; i++)
    if (class_size[i] == size) break;
  if (i == nclass && nclass < NCLASS) {
    class_size[nclass] = size;
    cached[nclass] = 0;
    nclass++;
  }
  if (i < nclass && cached[i] < MAXCACHED) {
    cache[i][cached[i]++] = ptr;
    return;
  }
  munmap(ptr, size);
}

typedef struct {
  void *ctx;
  void *(*alloc)(void *ctx, size_t size);
  void (*free)(void *ctx, void *ptr, size_t size);
} PyObjectArenaAllocator;

extern void PyObject_SetArenaAllocator(PyObjectArenaAllocator *allocator);

void gsim_install(void) {
  static PyObjectArenaAllocator a;
  a.ctx = NULL;
  a.alloc = gsim_arena_alloc;
  a.free = gsim_arena_free;
  PyObject_SetArenaAllocator(&a);
}
